"""C08: copied and derived tables are independent; queries never change the parser."""
from __future__ import annotations

import contextlib
import io
import warnings

from . import gen
from .c02 import acyclic
from .common import Batch, Result, canon_json, conv_tree, err_class, raw_parse, render_doc, rng_for, parse_with
from .decsnap import full_snapshot, impl_queries, impl_tables, impl_tables_public, model_tables, path_count_of


def gen_c08(rng):
    """Decay, CopyDecay, CDecay, ModelAlias, Define on an acyclic set of tables at least three levels deep"""
    doc, info = gen.gen_tables(rng, n_dec=rng.choice([3, 4, 5, 6]), aliases=False, max_lines=3, max_ds=3, depth_bias=0.7, copies=False)
    dec = info["dec"]
    defined = ["dm", "x1"]
    doc.insert(rng.randint(0, len(doc)), ["define", "dm", "0.5"])
    doc.insert(rng.randint(0, len(doc)), ["define", "x1", "-2E-4"])
    doc.insert(rng.randint(0, len(doc)), ["model_alias", "MyModel", ["named", "HELAMP", [["num", "1.0"], ["word", "dm"], ["word", "-x1"]]]])
    # use the alias and the definitions in some lines
    for st in doc:
        if st[0] == "decay":
            for ln in st[2]:
                r = rng.random()
                if r < 0.3:
                    ln[3] = ["alias", "MyModel"]
                elif r < 0.5:
                    ln[3] = ["named", "SSD_CP", [["word", "dm"], ["num", "1.0"], ["word", "x1"], ["word", "free"]]]
    if dec:
        for k in range(rng.randint(1, 2)):
            old = rng.choice(dec)
            new = f"Copy{k}"
            doc.append(["copydecay", new, old])
            if rng.random() < 0.3:
                # the source defined again further down with other lines: the first block is OLD's table, and the copy's
                doc.append(["decay", old, [["0.25", ["gamma", "gamma"], False, ["named", "PHSP", None]], ["0.75", ["e+", "e-"], True, ["named", "PHSP", None]]]])
            if rng.random() < 0.7:
                doc.append(["chargeconj", new, f"anti-Copy{k}"])
                doc.append(["cdecay", f"anti-Copy{k}"])
                if rng.random() < 0.3:
                    doc.append(["cdecay", f"anti-Copy{k}"])   # the same statement again: two derived tables, independent of each other
        m = rng.choice(dec)
        doc.append(["chargeconj", m, "Conj_" + m])
        doc.append(["cdecay", "Conj_" + m])
    return doc, info


def reachable_ids(tree):
    from lark import Token, Tree

    out = set()
    stack = [tree]
    while stack:
        x = stack.pop()
        if isinstance(x, Tree):
            out.add(id(x))
            out.add(id(x.children))
            stack.extend(x.children)
        elif isinstance(x, Token):
            out.add(id(x))
    return out


def mutate(x, rng, depth=0):
    """change a returned value in place as a careless caller would"""
    try:
        if isinstance(x, list):
            if x and rng.random() < 0.5 and depth < 3:
                mutate(rng.choice(x), rng, depth + 1)
            if rng.random() < 0.5:
                x.append("MUTATED")
            elif x:
                x[0] = "MUTATED"
            if rng.random() < 0.2:
                x.clear()
        elif isinstance(x, dict):
            ks = list(x)
            if ks and depth < 3:
                mutate(x[rng.choice(ks)], rng, depth + 1)
            if ks and rng.random() < 0.5:
                x[ks[0]] = "MUTATED"
            x["MUTATED"] = 1
    except Exception:
        pass


def run(ctx):
    from decaylanguage import DecayChainViewer, DecFileParser

    tier, seed = ctx["tier"], ctx["seed"]
    rng = rng_for(seed, "c08")
    res = Result("generated files combining Decay, CopyDecay, CDecay, ModelAlias and Define; random interleavings of all public queries "
                 "on one instance with the returned values mutated in place; every answer and the whole snapshot compared with a freshly "
                 "parsed instance after every step; object-graph audit of the stored tables; non-trivial = distinct (file, history)")
    batch = Batch(ctx["driver_ok"])
    n_files = 60 if tier == "quick" else 500
    n_steps = 25 if tier == "quick" else 60
    warnings.simplefilter("ignore")

    for i in range(n_files):
        doc, info = gen_c08(rng)
        if not acyclic(doc):
            continue
        text = render_doc(doc)
        case0 = {"kind": "history", "text": text}

        def fresh():
            q = DecFileParser.from_string(text)
            q.parse()
            return q

        try:
            p = fresh()
            ref = full_snapshot(fresh(), chain_budget=2000)
        except Exception as e:
            res.skipped += 1
            continue
        # --- CopyDecay: equal to OLD's table in everything but the name; no shared state
        tabs = impl_tables(p)
        names = [m for m, _ in tabs]
        copies = [(s[1], s[2]) for s in doc if s[0] == "copydecay"]
        for new, old in copies:
            if old in names and new in names:
                if dict(map(lambda t: (t[0], t[1]), tabs))[new] != dict(map(lambda t: (t[0], t[1]), tabs))[old]:
                    res.violation("CopyDecay table differs from its source", dict(case0, copy=[new, old]), clause="CopyDecay")
                if ["chargeconj", new, "anti-" + new] in doc and "anti-" + new not in names:
                    res.violation("a copied table is not usable as the source of a CDecay", dict(case0, copy=[new, old]), impl=names,
                                  clause="CopyDecay as CDecay source")
        # the switch for charge-conjugate decays concerns CDecay only: with it off, copies are made all the same
        try:
            q0 = DecFileParser.from_string(text)
            parse_with(q0, False)
            tabs0 = impl_tables(q0)
        except Exception as e:
            tabs0 = None
        if tabs0 is not None:
            d0 = {}
            for m_, ls_ in tabs0:
                d0.setdefault(m_, ls_)
            for new, old in copies:
                if old in d0 and (new not in d0 or (new not in [s[1] for s in doc if s[0] == "decay"] and d0[new] != d0[old])):
                    res.violation("with charge-conjugate decays disabled a CopyDecay statement does not give its table", dict(case0, copy=[new, old], include_ccdecays=False),
                                  impl=list(d0), clause="CopyDecay")
        if i % 4 == 1:
            # the same text read from files (one or two): parsed, queried and parsed again on one object, the answers are those of
            # the freshly parsed instance
            import os
            import tempfile

            with tempfile.TemporaryDirectory(prefix="verif_c08_") as td:
                cut = rng.randint(1, max(1, len(doc) - 1)) if len(doc) > 1 and rng.random() < 0.5 else None
                if cut is None:
                    paths = [os.path.join(td, "all.dec")]
                    open(paths[0], "w").write(text)
                else:
                    paths = [os.path.join(td, "one.dec"), os.path.join(td, "two.dec")]
                    open(paths[0], "w").write(render_doc(doc[:cut]))
                    open(paths[1], "w").write(render_doc(doc[cut:]))
                try:
                    pf = DecFileParser(*paths)
                    pf.parse()
                    first = full_snapshot(pf, chain_budget=300)
                    pf.list_decay_mother_names()
                    parse_with(pf, True)
                    second = full_snapshot(pf, chain_budget=300)
                except Exception as e:
                    first, second = None, {"raised": f"{type(e).__name__}: {str(e)[:120]}"}
            res.count("file_built_reparsed")
            if first is not None and (canon_json(second) != canon_json(first)):
                diff = [k for k in first if canon_json(first[k]) != canon_json(second.get(k))] if "raised" not in second else second
                res.violation("a parser built from files gives other answers after parsing the same files again", dict(case0, files=len(paths), history=["parse()", "parse()"]),
                              impl=diff, clause="history independence")
        trees = list(p._parsed_decays)
        idsets = [reachable_ids(t) for t in trees]
        for a in range(len(trees)):
            for b in range(a + 1, len(trees)):
                if idsets[a] & idsets[b]:
                    res.violation("two decay tables share objects (copying / conjugation / alias expansion must not share state)",
                                  dict(case0, tables=[names[a], names[b]]), clause="no shared state")
                    break
        res.count("audits")

        def onm(ans, tabs=tabs, case0=case0):
            if ans is not None and (ans[0] != "ok" or model_tables(ans[1]) != tabs):
                res.violation("tables differ from the model", case0, impl=tabs, model=ans, clause="model tie: tables")

        batch.add(["tables", [True], conv_tree(raw_parse(text))], onm)
        # --- history
        mothers = list(dict.fromkeys(p.list_decay_mother_names()))
        particles = info["dec"] + info["stable"]
        history = []
        ok = True
        for step in range(n_steps):
            kind = rng.choice(["mothers", "modes", "chains", "chains", "chains", "expand", "print", "dict", "viewer", "details", "n", "reparse" if step > 5 and rng.random() < 0.2 else "dict"])
            m = rng.choice(mothers)
            if kind == "expand" and path_count_of(p, m) > 5000:
                kind = "modes"
            st = [x for x in particles if rng.random() < 0.25]
            args = {"mothers": [], "modes": [m], "chains": [m, st], "expand": [m], "print": [m, rng.random() < 0.5, rng.random() < 0.5], "dict": [rng.randrange(10)],
                    "viewer": [m, st], "details": [m], "n": [], "reparse": [rng.choice(["plain", "off-then-plain", "on", "off-then-on"])]}[kind]
            history.append([kind] + args)

            def call(q, is_fresh=False):
                if kind == "mothers":
                    return q.list_decay_mother_names()
                if kind == "modes":
                    return q.list_decay_modes(m)
                if kind == "chains":
                    return q.build_decay_chains(m, stable_particles=st)
                if kind == "expand":
                    return q.expand_decay_modes(m)
                if kind == "print":
                    buf = io.StringIO()
                    with contextlib.redirect_stdout(buf):
                        q.print_decay_modes(m, normalize=args[1], ascending=args[2])
                    return buf.getvalue()
                if kind == "dict":
                    f = [q.dict_aliases, q.dict_charge_conjugates, q.dict_definitions, q.dict_model_aliases, q.dict_decays2copy,
                         q.list_charge_conjugate_decays, q.dict_pythia_definitions, q.dict_jetset_definitions, q.dict_lineshape_settings,
                         q.list_lineshapePW_definitions][args[0]]
                    return f()
                if kind == "viewer":
                    ch = q.build_decay_chains(m, stable_particles=st)
                    DecayChainViewer(ch)
                    return ch
                if kind == "details":
                    return [q._decay_mode_details(dm) for dm in q._find_decay_modes(m)]
                if kind == "n":
                    return q.number_of_decays
                if kind == "reparse":
                    # parsing again, whatever was asked of an earlier parse: a plain parse() afterwards answers like a fresh instance
                    if not is_fresh:
                        if args[0].startswith("off-then"):
                            parse_with(q, False)
                            q.list_decay_mother_names()
                        if args[0].endswith("on"):
                            parse_with(q, True)
                        else:
                            q.parse()
                    return q.list_decay_mother_names()

            def outcome(q, is_fresh=False):
                # a query that refuses its arguments (normalising a table whose fractions are all zero) refuses them on the
                # fresh instance as well: the refusal is the answer that is compared
                try:
                    return call(q, is_fresh)
                except RecursionError:
                    raise
                except Exception as e:
                    return {"raised": type(e).__name__}

            try:
                got = outcome(p)
                want = outcome(fresh(), True)
            except RecursionError:
                break
            if canon_json(got) != canon_json(want):
                res.violation("an answer differs from the answer of a freshly parsed instance", dict(case0, history=history),
                              impl=got if len(canon_json(got)) < 1500 else "…", model=want if len(canon_json(want)) < 1500 else "…", clause="history independence")
                ok = False
                break
            if not (isinstance(got, dict) and "raised" in got):
                mutate(got, rng)
            if step % 6 == 5 or step == n_steps - 1:
                snap = full_snapshot(p, chain_budget=2000)
                if canon_json(snap) != canon_json(ref):
                    diff = [k for k in ref if canon_json(ref[k]) != canon_json(snap.get(k))]
                    res.violation("the parser's answers changed after a sequence of queries (compared with a fresh instance)",
                                  dict(case0, history=history), impl=diff, clause="history independence")
                    ok = False
                    break
        res.case(canon_json([text, history]), {"text": text[:300], "history": history[:6]} if len(res.samples) < 3 else None)
        res.count("histories")
        res.count("steps", len(history))
    # --- copy, then redefine, then copy again (the EvtGen idiom): `CopyDecay OLD ORIG`, an explicit `Decay OLD` block with other
    # lines, `CopyDecay NEW OLD`: OLD answers with its explicit block (the first table of that name), and NEW equals OLD
    import itertools as _it

    stm = {"orig": "Decay ORIG0\n0.6 K- pi+ PHSP;\n0.4 K- pi+ pi0 PHOTOS VSS;\nEnddecay", "c1": "CopyDecay OLD0 ORIG0",
           "old": "Decay OLD0\n1.0 mu+ mu- PHOTOS VLL;\nEnddecay", "c2": "CopyDecay NEW0 OLD0"}
    for order in _it.permutations(["orig", "c1", "old", "c2"]):
        text = "\n".join(stm[k] for k in order) + "\n"
        try:
            q = DecFileParser.from_string(text)
            q.parse()
            got = {m: [list(fs) for fs in q.list_decay_modes(m)] for m in ("ORIG0", "OLD0", "NEW0")}
        except Exception as e:
            got = f"{type(e).__name__}: {e}"
        want = {"ORIG0": [["K-", "pi+"], ["K-", "pi+", "pi0"]], "OLD0": [["mu+", "mu-"]], "NEW0": [["mu+", "mu-"]]}
        res.case(canon_json(["copy-redefine-copy", order]))
        res.count("copy_redefine_copy")
        if got != want:
            res.violation("CopyDecay NEW OLD does not give NEW the table OLD answers with (OLD copied from elsewhere and then defined by its own Decay block)",
                          {"kind": "history", "text": text}, impl=got, model=want, clause="CopyDecay")
    # --- model names registered by the user (in one or several calls) are part of the parser: parsing the same text again, or
    # looking at the grammar first, gives the answers of a fresh instance on which the same names were registered
    reg_text = ("Alias MyD0 D0\nAlias MyAntiD0 anti-D0\nChargeConj MyD0 MyAntiD0\nDecay B0\n0.6 K+ MODEL_A PHSP;\n0.4 K+ pi- MODEL_C 1.0 2.0;\nEnddecay\n"
                "Decay MyD0\n1.0 K- pi+ PHOTOS MODEL_B;\nEnddecay\nCDecay MyAntiD0\nCDecay anti-B0\nCopyDecay B0copy B0\n")

    def registered(calls):
        q = DecFileParser.from_string(reg_text)
        if calls == 1:
            q.load_additional_decay_models("MODEL_A", "MODEL_B", "MODEL_C")
        elif calls == 2:
            q.load_additional_decay_models("MODEL_A")
            q.load_additional_decay_models("MODEL_B", "MODEL_C")
        else:
            for m_ in ("MODEL_A", "MODEL_B", "MODEL_C"):
                q.load_additional_decay_models(m_)
        return q

    for calls in (1, 2, 3):
        f = registered(calls)
        f.parse()
        ref_reg = full_snapshot(f, chain_budget=200)
        for hist_ in (["parse", "parse"], ["grammar", "parse"], ["parse", "queries", "parse(False)", "parse"], ["grammar", "parse", "grammar", "parse"]):
            q = registered(calls)
            try:
                for step_ in hist_:
                    if step_ == "parse":
                        q.parse()
                    elif step_ == "parse(False)":
                        parse_with(q, False)
                    elif step_ == "grammar":
                        q.grammar()
                    else:
                        q.list_decay_modes("B0"), q.build_decay_chains("B0"), q.dict_aliases()
                got_reg = full_snapshot(q, chain_budget=200)
            except Exception as e:
                got_reg = {"raised": f"{type(e).__name__}: {str(e)[:150]}"}
            res.case(canon_json([calls, hist_]))
            res.count("registered_model_histories")
            if canon_json(got_reg) != canon_json(ref_reg):
                diff = [k for k in ref_reg if canon_json(ref_reg[k]) != canon_json(got_reg.get(k))] if "raised" not in got_reg else got_reg
                res.violation("with user-registered model names, the answers after a history differ from those of a fresh instance",
                              {"kind": "history", "text": reg_text, "registration_calls": calls, "history": hist_}, impl=diff, clause="history independence")
    batch.run()
    return res.done()
