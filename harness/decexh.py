"""Exhaustive validation of the Lean reader of the .dec language (DL/Model/DecRead.lean) against Lark on /repo's grammar:
every sequence of up to N tokens of a small token alphabet (glued without blanks; the blank is a token), after a prefix and
before a suffix, is read by both; they must reject the same texts and read the accepted ones into the same statements."""
import itertools
import time

from .common import conv_tree, raw_parse, run_driver

TOKS = ["Decay", "Enddecay", "End", "X", "0.5", "1", "PHSP", "PHOTOS", ";", "\n", "\r\n", " ", "#c", ",", "-x", "Alias", "Define",
        "CDecay", "ModelAlias", "M", "x", "SVS"]
SMALL = ["X", "1", " ", "\n", "#", ".", "-", "e", ";", ",", "+"]

CONTEXTS = [
    ("", "", 0, TOKS),
    ("", "\n", 0, TOKS),
    ("Decay X\n", "\nEnddecay\n", 0, TOKS),
    ("Decay X\n0.5 x ", ";\nEnddecay\n", 0, TOKS),
    ("Decay X\n0.5 ", " PHSP;\nEnddecay\n", 0, TOKS),
    ("Decay X\n0.5 x PHSP ", "\nEnddecay\n", 0, TOKS),
    ("ModelAlias M ", "\n", -1, TOKS),
    ("Define ", "\n", -1, TOKS),
    ("", "", 2, SMALL),
    ("Decay X\n", "\nEnddecay\n", 2, SMALL),
    ("Decay X\n0.5 x PHSP ", ";\nEnddecay\n", 2, SMALL),
]


def oracle(text):
    try:
        return ["ok", conv_tree(raw_parse(text))]
    except Exception:
        return ["err"]


def texts_for(prefix, suffix, n, toks):
    out = []
    for k in range(0, n + 1):
        for seq in itertools.product(toks, repeat=k):
            out.append(prefix + "".join(seq) + suffix)
    return list(dict.fromkeys(out))


def compare(texts, unwire):
    exp = [oracle(t) for t in texts]
    ans = run_driver([["dec_read", [], t] for t in texts])
    dis = []
    acc = 0
    for t, e, a in zip(texts, exp, ans):
        g = ["ok", unwire(a[1])] if a[0] == "ok" else ["err"]
        acc += e[0] == "ok"
        if g != e:
            dis.append((t, e, g))
    return acc, dis


def run(n=3, part=(0, 1), unwire=None, verbose=True):
    if unwire is None:
        from .c02 import _unwire as unwire
    total = bad = accepted = 0
    first = []
    for prefix, suffix, dn, toks in CONTEXTS:
        texts = texts_for(prefix, suffix, n + dn, toks)
        texts = [t for i, t in enumerate(texts) if i % part[1] == part[0]]
        t0 = time.time()
        acc, dis = compare(texts, unwire)
        total += len(texts)
        accepted += acc
        bad += len(dis)
        first += dis[:5]
        if verbose:
            print(f"prefix {prefix!r} suffix {suffix!r} n={n + dn}: {len(texts)} texts, accepted {acc}, disagreements {len(dis)}  ({time.time() - t0:.0f} s)", flush=True)
            for t, e, g in dis[:5]:
                print("   ", repr(t), "\n      lark ", str(e)[:300], "\n      model", str(g)[:300])
    return total, accepted, bad, first


