"""Canonical views of a parsed DecFileParser and of the model's answers, shared by the .dec harnesses."""
from __future__ import annotations

import contextlib
import io
import math
from fractions import Fraction

from .common import canon_json, err_class, fl, frac


def fnum(x):
    """floats compared exactly; nan made comparable"""
    if isinstance(x, float) and math.isnan(x):
        return "nan"
    return x


def line_canon_py(p, dm):
    d0 = p._decay_mode_details(dm, display_photos_keyword=False)
    d1 = p._decay_mode_details(dm, display_photos_keyword=True)
    photos = d1["model"] == "PHOTOS " + d0["model"]
    if not photos and d1["model"] != d0["model"]:
        photos = "inconsistent:" + d1["model"]
    mp = d0["model_params"]
    params = None if mp == "" else [["num", x] if isinstance(x, float) else ["word", str(x)] for x in mp]
    return [float(d0["bf"]), list(d0["fs"]), photos, d0["model"], params]


def impl_tables(p):
    """every table in order, through the stored trees (two tables of one name are both seen)"""
    from decaylanguage.dec.dec import get_decay_mother_name

    out = []
    for tree in p._parsed_decays:
        out.append([get_decay_mother_name(tree), [line_canon_py(p, dm) for dm in tree.find_data("decayline")]])
    return out


def impl_tables_public(p):
    """the same through the public queries only (first table of a name)"""
    out = []
    for m in p.list_decay_mother_names():
        out.append([m, [line_canon_py(p, dm) for dm in p._find_decay_modes(m)]])
    return out


def model_tables(ans):
    """decoded answer of the `tables` op -> the same shape"""
    out = []
    for m, lines in ans:
        ls = []
        for bf, ds, ph, model, params in lines:
            ls.append([fl(bf), list(ds), ph == "T", model,
                       None if params == "N" else [["num", fl(x[1])] if x[0] == "num" else ["word", x[1]] for x in params]])
        out.append([m, ls])
    return out


def sval_py(v):
    if isinstance(v, bool):
        return ["flag", v]
    if isinstance(v, int):
        return ["int", v]
    if isinstance(v, float):
        if math.isnan(v):
            return ["special", "nan"]
        if math.isinf(v):
            return ["special", "inf" if v > 0 else "-inf"]
        return ["num", v]
    return ["word", str(v)]


def sval_wire(w):
    k = w[0]
    if k == "int":
        return ["int", int(w[1])]
    if k == "num":
        return ["num", fl(w[1])]
    if k == "special":
        return ["special", w[1]]
    if k == "flag":
        return ["flag", w[1] == "T"]
    if k == "name":
        return ["word", w[1]]
    return ["word", w[1]]


def _try(f):
    try:
        return ["ok", f()]
    except Exception as e:
        return ["err", err_class(e)]


def impl_queries(p):
    q = {}
    q["aliases"] = list(map(list, p.dict_aliases().items()))
    q["charge_conjugates"] = list(map(list, p.dict_charge_conjugates().items()))
    q["decays2copy"] = list(map(list, p.dict_decays2copy().items()))
    q["definitions"] = [[k, v] for k, v in p.dict_definitions().items()]
    q["model_aliases"] = [[k, [str(x) for x in v]] for k, v in p.dict_model_aliases().items()]
    q["cdecays"] = list(p.list_charge_conjugate_decays())
    q["global_photos"] = bool(int(p.global_photos_flag()))
    q["lineshape_pw"] = [[list(a), int(b)] for a, b in p.list_lineshapePW_definitions()]
    q["pythia"] = [[k, [[k2, sval_py(v)] for k2, v in inner.items()]] for k, inner in p.dict_pythia_definitions().items()]
    q["jetset"] = _try(lambda: [[k, [[str(k2), sval_py(v)] for k2, v in inner.items()]] for k, inner in p.dict_jetset_definitions().items()])
    q["lineshape"] = _try(lambda: [[k, [[k2, sval_py(v)] for k2, v in inner.items()]] for k, inner in p.dict_lineshape_settings().items()])
    q["particle_defs"] = _try(lambda: [[k, v["mass"], v["width"]] for k, v in p.get_particle_property_definitions().items()])
    return q


def model_queries(ans):
    d = {x[0]: x[1] for x in ans}
    q = {}
    q["aliases"] = [list(x) for x in d["aliases"]]
    q["charge_conjugates"] = [list(x) for x in d["charge_conjugates"]]
    q["decays2copy"] = [list(x) for x in d["decays2copy"]]
    q["definitions"] = [[k, fl(v)] for k, v in d["definitions"]]
    q["model_aliases"] = [[k, list(v)] for k, v in d["model_aliases"]]
    q["cdecays"] = list(d["cdecays"])
    q["global_photos"] = d["global_photos"] == "T"
    q["lineshape_pw"] = [[list(a), int(b)] for a, b in d["lineshape_pw"]]
    q["pythia"] = [[k, [[k2, sval_wire(v)] for k2, v in inner]] for k, inner in d["pythia"]]

    def res(x, f):
        if x[0] == "ok":
            return ["ok", f(x[1])]
        return ["err", {"RuntimeError": "RuntimeError"}.get(x[1], x[1])]

    q["jetset"] = res(d["jetset"], lambda v: [[k, [[k2, sval_wire(x)] for k2, x in inner]] for k, inner in v])
    q["lineshape"] = res(d["lineshape"], lambda v: [[k, [[k2, sval_wire(x)] for k2, x in inner]] for k, inner in v])
    q["particle_defs"] = res(d["particle_defs"], lambda v: [[k, fl(m), fl(w)] for k, m, w in v])
    return q


def ref_widths(doc):
    """reference widths (MeV, exact value of the float) the model needs for Particle statements without a width"""
    from particle import Particle

    aliases = {}
    for st in doc:
        if st[0] == "alias":
            aliases[st[1]] = st[2]
    out = []
    seen = set()
    for st in doc:
        if st[0] == "particle_def" and st[3] is None:
            pname = aliases.get(st[1], st[1])
            if pname in seen:
                continue
            seen.add(pname)
            try:
                w = Particle.from_evtgen_name(pname).width
                if w is None:
                    continue
                out.append([pname, Fraction(float(w))])
            except Exception:
                pass
    return out


def printed(p, mother, **kw):
    buf = io.StringIO()
    with contextlib.redirect_stdout(buf):
        p.print_decay_modes(mother, **kw)
    return buf.getvalue()


def full_snapshot(p, chain_budget=400, stable_sets=((),)):
    """every public query, canonicalised: what 'identical answers to every query' compares"""
    snap = {"n": p.number_of_decays, "mothers": list(p.list_decay_mother_names()), "tables": impl_tables_public(p),
            "queries": impl_queries(p)}
    per = {}
    for m in dict.fromkeys(p.list_decay_mother_names()):
        e = {"modes": [list(x) for x in p.list_decay_modes(m)]}
        try:
            e["print"] = printed(p, m)
            e["print_norm"] = _try(lambda: printed(p, m, normalize=True, ascending=True, display_photos_keyword=False))
        except Exception as ex:
            e["print"] = "ERR " + err_class(ex)
        if chain_budget > 0:
            try:
                size = [0]

                def walk(cd):
                    (k, modes), = cd.items()
                    size[0] += 1 + len(modes)
                    return [k, [[float(x["bf"]), x["model"], canon_json(x["model_params"]) if not isinstance(x["model_params"], str) else x["model_params"],
                                 [it if isinstance(it, str) else walk(it) for it in x["fs"]]] for x in modes]]

                for st in stable_sets:
                    e["chain:" + ",".join(st)] = walk(p.build_decay_chains(m, stable_particles=list(st)))
                if size[0] < chain_budget and path_count_of(p, m) <= 5000:
                    e["expand"] = _try(lambda: p.expand_decay_modes(m))
            except RecursionError:
                e["chain"] = "RecursionError"
        per[m] = e
    snap["per_mother"] = per
    return snap


def path_count_of(p, m):
    """number of complete decay paths below m, computed from the tables (to decide whether expanding is affordable)"""
    tables = {x: [list(fs) for fs in p.list_decay_modes(x)] for x in dict.fromkeys(p.list_decay_mother_names())}
    memo = {}

    def go(x, depth=0):
        if x in memo:
            return memo[x]
        if depth > 50:
            return 10**9
        total = 0
        for fs in tables[x]:
            prod = 1
            for d in fs:
                if d in tables and tables[d]:
                    prod *= go(d, depth + 1)
                    if prod > 10**9:
                        break
            total += prod
        memo[x] = min(total, 10**9)
        return memo[x]

    return go(m) if m in tables else 0
