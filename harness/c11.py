"""C11: class, dictionary and parser forms of a decay convert into each other losslessly."""
from __future__ import annotations

import itertools
from collections import Counter
from fractions import Fraction

from . import gen
from .common import Batch, Result, canon_json, load_corpus, rng_for


# ---- wire forms
def mode_wire(dm):
    return [repr(dm.bf), dm.daughters.to_list(), [[k, canon_json(v)] for k, v in dm.metadata.items()]]


def modedict_wire(d: dict):
    rest = [[k, canon_json(v)] for k, v in d.items() if k not in ("bf", "fs")]
    return [[repr(d["bf"])] if "bf" in d else None, [list(d["fs"])] if "fs" in d else None, rest]


def chain_wire(cd: dict):
    (mother, modes), = cd.items()
    out = ["C", mother]
    for m in modes:
        items = []
        for it in m["fs"]:
            items.append(["L", it] if isinstance(it, str) else ["S", chain_wire(it)])
        rest = [[k, canon_json(v)] for k, v in m.items() if k not in ("bf", "fs")]
        out.append(["M", [repr(m["bf"]), rest], items])
    return out


def wire_chain_canon(w):
    """decoded model chain -> comparable structure"""
    return [w[1], [[m[1][0], sorted(map(tuple, m[1][1])), [it[1] if it[0] == "L" else wire_chain_canon(it[1]) for it in m[2]]] for m in w[2:]]]


def dict_chain_canon(cd: dict):
    (mother, modes), = cd.items()
    return [mother, [[repr(m["bf"]), sorted((k, canon_json(v)) for k, v in m.items() if k not in ("bf", "fs")),
                      [it if isinstance(it, str) else dict_chain_canon(it) for it in m["fs"]]] for m in modes]]


def mode_canon_py(dm):
    md = dict(dm.metadata)
    return [repr(dm.bf), dm.daughters.to_list(), sorted((k, canon_json(v)) for k, v in md.items())]


def mode_canon_wire(w):
    return [w[0], list(w[1]), sorted((k, v) for k, v in w[2])]


def build_chain(spec, rng, exact=False, with_meta=True):
    from decaylanguage import DecayChain, DecayMode

    decays = {}
    for name, ds in spec:
        info = {}
        if with_meta and rng.random() < 0.6:
            info["model"] = rng.choice(["PHSP", "VSS", "", "HELAMP"])
        if with_meta and rng.random() < 0.4:
            info["model_params"] = rng.choice(["", [1.0, "x"], [0.5, -0.3], None])
        if with_meta and rng.random() < 0.4:
            for i in range(rng.randint(1, 2)):
                info[rng.choice(["study", "year", "zfit", "note", "k"]) + ("" if i == 0 else str(i))] = gen.json_value(rng)
        decays[name] = DecayMode(gen.rand_bf(rng, exact), list(ds), **info)
    return DecayChain(spec[0][0], decays)


def reachable(dc):
    seen = []

    def go(n):
        if n in seen:
            return
        seen.append(n)
        for d in dc.decays[n].daughters.to_list():
            if d in dc.decays:
                go(d)

    go(dc.mother)
    return seen


def modes_equal(a, b):
    pa = dict(a.metadata)
    pb = dict(b.metadata)
    for p in (pa, pb):
        if p.get("model_params") is None:
            p["model_params"] = ""
    return a.bf == b.bf and Counter(a.daughters) == Counter(b.daughters) and canon_json(pa) == canon_json(pb)


def run(ctx):
    from decaylanguage import DaughtersDict, DecayChain, DecayMode
    from particle import ParticleNotFound
    from particle.converters import EvtGenName2PDGIDBiMap

    tier, seed = ctx["tier"], ctx["seed"]
    rng = rng_for(seed, "c11")
    res = Result("random and exhaustive single acyclic chains / modes / final states; non-trivial = distinct case with "
                 ">= 2 decaying particles, or a mode with user metadata, or a final state with a repeated particle")
    batch = Batch(ctx["driver_ok"])
    n_random = 400 if tier == "quick" else 6000
    max_exh = 3 if tier == "quick" else 4

    def chain_case(dc, label):
        case = {"kind": "chain", "label": label, "mother": dc.mother,
                "decays": {k: mode_canon_py(v) for k, v in dc.decays.items()}}
        try:
            d = dc.to_dict()
            dc2 = DecayChain.from_dict(d)
            d2 = dc2.to_dict()
        except Exception as e:  # the property says the round trip works
            res.violation(f"round trip raised {type(e).__name__}: {e}", case, clause="chain -> dict -> chain",
                          finding_key="F4" if "single decay chain" in str(e) else None)
            res.case()
            return
        # the two forms are separate values: an in-place edit of the dictionary (or of a round-tripped copy) after the conversion
        # does not reach the object it was converted to (or from) - model parameters and user metadata included
        try:
            import copy as _copy

            d_src = _copy.deepcopy(d)
            dc3 = DecayChain.from_dict(d_src)
            before3 = canon_json(dc3.to_dict())

            def scribble(x):
                if isinstance(x, dict):
                    for v in list(x.values()):
                        scribble(v)
                    if "model_params" in x or "bf" in x:
                        x["scribbled"] = 1
                elif isinstance(x, list):
                    for v in x:
                        scribble(v)
                    x.append("SCRIBBLED")

            scribble(d_src)
            after3 = canon_json(dc3.to_dict())
            d4 = DecayChain.from_dict(dc.to_dict()).to_dict()
            scribble(d4)            # the dictionary form of a round-tripped copy; dc (the original) must not notice
            after_orig = canon_json(dc.to_dict())
        except Exception as e:
            before3 = after3 = after_orig = None
        res.count("in_place_edits_after_conversion")
        if before3 is not None and (before3 != after3 or after_orig != canon_json(d)):
            res.violation("an in-place edit of the dictionary form after the conversion changes the class form (the two share state)", case,
                          impl={"converted_object_changed": before3 != after3, "original_changed_by_editing_the_copy": after_orig != canon_json(d)},
                          clause="chain -> dict -> chain")
            res.case()
            return
        reach = reachable(dc)
        ok = dc2.mother == dc.mother and set(dc2.decays) == set(reach) and all(modes_equal(dc2.decays[k], dc.decays[k]) for k in reach) and d2 == d
        if not ok:
            res.violation("from_dict(to_dict(c)) differs from c", case, impl={"decays2": {k: mode_canon_py(v) for k, v in dc2.decays.items()}},
                          clause="chain -> dict -> chain")
        nt = canon_json(case) if len(reach) >= 2 else None
        res.case(nt, {"mother": dc.mother, "descriptor": dc.to_string()} if nt else None)
        res.count("chains")
        res.count(f"chain_size_{min(len(reach), 6)}")
        if len(reach) != len(set(x for x in reach)) or any(sum(1 for k2 in reach for d0 in dc.decays[k2].daughters.to_list() if d0 == k) > 1 for k in reach):
            res.count("chains_with_repeated_decaying_particle")

        # model: to_dict
        def on_todict(ans, d=d, case=case):
            if ans is None:
                return
            if ans[0] != "ok" or wire_chain_canon(ans[1]) != dict_chain_canon(d):
                res.violation("to_dict differs from the model", case, impl=dict_chain_canon(d), model=ans, clause="model tie: to_dict")

        batch.add(["chain_todict", dc.mother, [[k, mode_wire(v)] for k, v in dc.decays.items()]], on_todict)

        def on_fromdict(ans, dc2=dc2, case=case):
            if ans is None:
                return
            impl = [dc2.mother, [[k, mode_canon_py(v)] for k, v in dc2.decays.items()]]
            if ans[0] != "ok":
                res.violation("from_dict succeeded, the model rejects", case, impl=impl, model=ans, clause="model tie: from_dict")
                return
            model = [ans[1][0], [[k, mode_canon_wire(m)] for k, m in ans[1][1]]]
            if model != impl:
                res.violation("from_dict differs from the model", case, impl=impl, model=model, clause="model tie: from_dict")

        batch.add(["chain_fromdict", chain_wire(d)], on_fromdict)

    # corpus first
    for fname, c in load_corpus("C11"):
        if c["kind"] == "chain":
            decays = {k: DecayMode(v["bf"], v["ds"], **v.get("info", {})) for k, v in c["decays"].items()}
            chain_case(DecayChain(c["mother"], decays), "corpus:" + fname)

    # exhaustive small shapes
    dnames = ["D0", "K_1(1270)+", "pi0", "K_S0", "rho0"]
    snames = ["gamma", "pi+", "e-"]
    for spec in gen.all_small_tree_specs(max_exh, dnames, snames, max_mult=3 if tier != "quick" else 2):
        chain_case(build_chain(spec, rng, with_meta=False), "exhaustive")
    # random
    for i in range(n_random):
        n_dec = rng.choice([1, 2, 2, 3, 3, 4, 5, 6, 8, 12])
        spec = gen.rand_tree_spec(rng, n_dec, all_reachable=rng.random() < 0.85)
        chain_case(build_chain(spec, rng, exact=rng.random() < 0.3), "random")

    # chains that are not single chains must be rejected, by code and model alike
    for i in range(20 if tier == "quick" else 200):
        spec = gen.rand_tree_spec(rng, rng.choice([2, 3, 4]))
        dc = build_chain(spec, rng)
        d = dc.to_dict()
        # give one decaying particle a second, different mode
        (m, modes), = d.items()
        target = modes[0]
        subs = [it for it in target["fs"] if isinstance(it, dict)]
        if not subs:
            continue
        sub = subs[0]
        (sm, smodes), = sub.items()
        smodes.append({"bf": 0.123, "fs": ["zz"], "model": "", "model_params": ""})
        case = {"kind": "not-single", "dict": dict_chain_canon(d)}
        try:
            DecayChain.from_dict(d)
            impl = "accepted"
        except RuntimeError:
            impl = "NotSingle"
        except Exception as e:
            impl = "Other:" + type(e).__name__
        res.case(canon_json(case))
        res.count("not_single")
        if impl != "NotSingle":
            res.violation("a particle with two decay modes is not rejected", case, impl=impl, clause="single chains only")

        def on_ns(ans, case=case):
            if ans is not None and ans != ["err", "NotSingle"]:
                res.violation("model accepts a non-single chain", case, model=ans, clause="model tie: from_dict")

        batch.add(["chain_fromdict", chain_wire(d)], on_ns)

    # decay modes
    for i in range(n_random):
        info = {}
        for _ in range(rng.randint(0, 3)):
            info[rng.choice(["model", "model_params", "study", "year", "zfit", "q", "x1"])] = gen.json_value(rng)
        names = gen.name_pool(rng, rng.randint(1, 5))
        ds = [rng.choice(names) for _ in range(rng.randint(0, 6))]
        dm = DecayMode(gen.rand_bf(rng, rng.random() < 0.3), ds, **info)
        case = {"kind": "mode", "mode": mode_canon_py(dm)}
        d = dm.to_dict()
        try:
            dm2 = DecayMode.from_dict(d)
        except Exception as e:
            res.violation(f"DecayMode.from_dict(to_dict()) raised {type(e).__name__}", case, clause="mode -> dict -> mode")
            continue
        if not modes_equal(dm, dm2) or dm2.to_dict() != d:
            res.violation("DecayMode round trip differs", case, impl=mode_canon_py(dm2), clause="mode -> dict -> mode")
        res.case(canon_json(case) if len(info) > 0 else None, case if i < 2 else None)
        res.count("modes")

        def on_mode(ans, d=d, dm2=dm2, case=case):
            if ans is None:
                return
            if ans[0] != "ok":
                res.violation("model rejects a mode dictionary", case, model=ans, clause="model tie: mode")
                return
            if mode_canon_wire(ans[1][0]) != mode_canon_py(dm2):
                res.violation("DecayMode.from_dict differs from the model", case, impl=mode_canon_py(dm2), model=ans[1][0], clause="model tie: mode")

        batch.add(["mode_fromdict", modedict_wire(d)], on_mode)
    # dictionaries lacking bf / fs
    for d in ({"fs": ["a"]}, {"bf": 1.0}, {}):
        try:
            DecayMode.from_dict(dict(d))
            impl = "accepted"
        except RuntimeError:
            impl = "BadFormat"
        res.case()
        if impl != "BadFormat":
            res.violation("mode dictionary without bf/fs accepted", {"kind": "mode-bad", "dict": d}, impl=impl, clause="mode dictionary needs bf and fs")

    # final states
    pdg_items = list(EvtGenName2PDGIDBiMap._to_map.items())
    for i in range(n_random):
        names = gen.name_pool(rng, rng.randint(1, 5))
        ds = [rng.choice(names) for _ in range(rng.randint(0, 8))]
        perm = ds[:]
        rng.shuffle(perm)
        counts = Counter(ds)
        extra_zero = {"zero0": 0, "neg0": -2} if rng.random() < 0.3 else {}
        cd = dict(counts)
        cd.update(extra_zero)
        sep = rng.choice([" ", "  ", "\t", " \n "])
        forms = {
            "list": DaughtersDict(ds),
            "perm": DaughtersDict(perm),
            "tuple": DaughtersDict(tuple(perm)),
            "string": DaughtersDict(sep.join(ds)) if ds else DaughtersDict(""),
            # blanks around the names (a line read from a file, an indented string): separators, never names
            "padded-string": DaughtersDict(rng.choice(["", " ", "\t", "  "]) + sep.join(ds) + rng.choice(["\n", " ", "", " \n", "\t "])),
            "counts": DaughtersDict(cd),
            # one-shot iterables of names
            "iterator": DaughtersDict(iter(list(perm))),
            "generator": DaughtersDict(x for x in perm),
            "map": DaughtersDict(map(str, perm)),
        }
        want = sorted(ds)
        case = {"kind": "final-state", "names": ds}
        for k, v in forms.items():
            if v.to_list() != want or len(v) != len(ds) or v.to_string() != " ".join(want):
                res.violation(f"DaughtersDict from {k} differs", case, impl=v.to_list(), clause="final states")
        # every entry point that takes a final state takes every one of these forms (constructor of the mode, dictionary form
        # of the mode): the same final state, multiplicities counted, non-positive counts dropped
        import collections

        raw_forms = {"list": list(perm), "tuple": tuple(perm), "string": sep.join(ds), "counts": dict(cd), "Counter": Counter(cd),
                     "OrderedDict": collections.OrderedDict(cd), "DaughtersDict": DaughtersDict(perm)}
        for k, raw in raw_forms.items():
            for entry in ("DecayMode", "DecayMode.from_dict"):
                try:
                    dmx = DecayMode(0.25, raw) if entry == "DecayMode" else DecayMode.from_dict({"bf": 0.25, "fs": raw, "model": "PHSP"})
                    got = [dmx.daughters.to_list(), len(dmx), dmx.to_dict().get("fs")]
                except Exception as e:
                    got = f"{type(e).__name__}: {e}"
                if got != [want, len(ds), want]:
                    res.violation(f"{entry} with the final state given as {k} does not hold that final state", dict(case, form=k, entry=entry, given=repr(raw)[:300]),
                                  impl=got, model=[want, len(ds), want], clause="final states")
        res.count("entry_point_forms", 2 * len(raw_forms))
        # the same final state reached step by step (the mapping interface of the class): built from a prefix, the rest added in place
        if len(ds) >= 2:
            k = rng.randint(0, len(perm) - 1)
            grown = DaughtersDict(perm[:k])
            for j, x in enumerate(perm[k:]):
                how = (j + i) % 3
                if how == 0:
                    grown[x] += 1
                elif how == 1:
                    grown.update([x])
                else:
                    grown += DaughtersDict([x])
            if grown.to_list() != want or grown.to_string() != " ".join(want) or len(grown) != len(ds) or grown != forms["list"]:
                res.violation("a final state grown in place is not reported in the canonical order / differs from the one built at once",
                              dict(case, built_from=perm[:k], added=perm[k:]), impl=grown.to_list(), model=want, clause="final states: canonical order")
            dm = DecayMode(0.5, perm[:k])
            for x in perm[k:]:
                dm.daughters[x] += 1
            d2 = dm.to_dict()
            if d2.get("fs") != want or DecayMode.from_dict(d2).to_dict() != d2:
                res.violation("a decay mode whose final state was grown in place does not round-trip / is not in canonical order",
                              dict(case, built_from=perm[:k], added=perm[k:]), impl=d2.get("fs"), model=want, clause="mode round trip")
            res.count("grown_in_place")
        res.case(canon_json(sorted(ds)) if len(ds) != len(set(ds)) else None, case if i < 2 else None)
        res.count("final_states")

        def on_dd(ans, want=want, case=case):
            if ans is not None and (ans[0] != "ok" or list(ans[1]) != want):
                res.violation("model final state differs", case, model=ans, clause="model tie: final state")

        batch.add(["dd_list", perm], on_dd)
        batch.add(["dd_string", sep.join(ds)], on_dd)
        batch.add(["dd_counts", [[k, v] for k, v in cd.items()]], on_dd)
    # PDG IDs: every ID of the table, plus IDs outside
    ids = [(str(n), int(v)) for n, v in pdg_items]
    if tier == "quick":
        ids = [x for n, x in enumerate(ids) if n % 4 == seed % 4]
    for name, pid in ids:
        try:
            dm = DecayMode.from_pdgids(0.5, [pid, pid])
            good = dm.daughters.to_list() == [name, name]
        except Exception:
            good = False
        res.case()
        res.count("pdgids")
        if not good:
            res.violation("from_pdgids differs from the name table", {"kind": "pdgid", "id": pid}, clause="PDG IDs")
    for bad in (99999, 123456789, -4444444):
        try:
            DecayMode.from_pdgids(0.5, [bad])
            impl = "accepted"
        except ParticleNotFound:
            impl = "ParticleNotFound"
        except Exception as e:
            impl = type(e).__name__
        res.case()
        if impl != "ParticleNotFound":
            res.violation("unknown PDG ID not reported as ParticleNotFound", {"kind": "pdgid", "id": bad}, impl=impl, clause="PDG IDs")

    # parser-produced single-line chains
    from decaylanguage import DecFileParser

    for i in range(60 if tier == "quick" else 600):
        n_dec = rng.choice([1, 2, 3, 4, 5])
        names = [n for n in gen.name_pool(rng, n_dec + 5, synthetic=0.0) if n[0] not in "0123456789.+-" and n != "PHOTOS"]
        if len(names) < n_dec + 2:
            continue
        spec = gen.rand_tree_spec(rng, n_dec, names=names)
        text = ""
        for name, ds in spec:
            shuffled = ds[:]
            rng.shuffle(shuffled)
            text += f"Decay {name}\n{rng.choice(['1.0', '0.5', '0.25'])} {' '.join(shuffled)} {rng.choice(['PHSP', 'VSS', 'HELAMP 1.0 0.5'])};\nEnddecay\n"
        case = {"kind": "parser-chain", "text": text}
        try:
            p = DecFileParser.from_string(text)
            p.parse()
            pd = p.build_decay_chains(spec[0][0])
        except Exception as e:
            res.skipped += 1
            continue
        try:
            back = DecayChain.from_dict(pd).to_dict()
        except Exception as e:
            res.violation(f"parser chain does not convert: {type(e).__name__}: {e}", case, clause="parser -> class -> dict")
            res.case()
            continue

        def sort_fs(cd):
            (m, modes), = cd.items()
            return [m, [[repr(x["bf"]), x["model"], canon_json(x["model_params"]),
                         sorted([it if isinstance(it, str) else canon_json(sort_fs(it)) for it in x["fs"]])] for x in modes]]

        if sort_fs(back) != sort_fs(pd):
            res.violation("parser chain -> DecayChain -> dict differs", case, impl=sort_fs(back), model=sort_fs(pd), clause="parser -> class -> dict")
        res.case(canon_json(case) if n_dec >= 2 else None)
        res.count("parser_chains")

    batch.run()
    return res.done()
