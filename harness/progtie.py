"""C19 program tie: the declaration / use structure of the real C++ and Python outputs against the model DL/Model/GooFitProg.lean.

The returned text of `ampgen2goofit` / `ampgen2goofitpy` is cut into statements by a small scanner (string literals, brackets,
`;`), and for every statement the declared and the used symbols are taken out by regular expressions (`real_program`).  The same
input (event type, all-particles set, parameter rows, constant rows, expanded lines with the particle attributes of the real
objects: `model_input`) goes to the model's `progCpp` / `progPy` (driver op `prog`); programs are compared statement by
statement after `canon` (order inside the groups the real code writes by iterating a Python set is not compared).
Written with the model (validated there on 522 files, 39 900 statements)."""
from __future__ import annotations

import functools
import os
import re

# ----------------------------------------------------------------------------- generator (from ampcommon_reference.py)
PAIRS = {
    "K*(892)bar0": ("K-", "pi+"), "K*(892)0": ("K+", "pi-"), "rho(770)0": ("pi+", "pi-"), "rho(1450)0": ("pi+", "pi-"),
    "omega(782)0": ("pi+", "pi-"), "phi(1020)0": ("K+", "K-"), "KPi00": ("K-", "pi+"), "KPi10": ("K-", "pi+"),
    "PiPi00": ("pi+", "pi-"), "PiPi10": ("pi+", "pi-"), "PiPi20": ("pi+", "pi-"),
}
LS_TAGS = {"KPi00": ["FOCUS.Kpi", "FOCUS.I32", "FOCUS.KEta"], "KPi10": ["FOCUS.Kpi", "FOCUS.I32"],
           "PiPi00": ["kMatrix.pole.1", "kMatrix.prod.0"], "PiPi10": ["kMatrix.pole.1", "kMatrix.prod.0"], "PiPi20": ["kMatrix.pole.0", "kMatrix.prod.0"]}
NUMS = ["1", "0", "0.5", "1.25", "-0.271637", "2.01551", "0.0205762", "3.01374", "-2.96395", "1e-3", "2E-1", ".5", "+0.75"]


def install_cache():
    from particle import Particle

    from decaylanguage.modeling import amplitudechain as ac
    from decaylanguage.utils import particleutils as pu

    getall = "all" if hasattr(Particle, "all") else "table"
    if 998100 not in getattr(Particle, getall)():
        Particle.load_table(os.path.join(os.path.dirname(ac.__file__), "..", "data", "MintDalitzSpecialParticles.csv"), append=True)
    ac.particle_from_string_name = functools.lru_cache(maxsize=None)(pu.particle_from_string_name)


def two_body(rng, name, tag=True):
    a, b = PAIRS[name]
    ls = rng.choice(LS_TAGS[name]) if (tag and name in LS_TAGS) else None
    return ["D", name, None, ls, [["D", a, None, None, []], ["D", b, None, None, []]]]


def coupling(rng):
    f1, f2 = rng.choice([(2, 2), (0, 0), (0, 0), (2, 0), (0, 2), (1, 1)])
    return [str(f1), rng.choice(NUMS), rng.choice(NUMS[:6]), str(f2), rng.choice(NUMS), rng.choice(NUMS[:6])]


def gen_emit_doc(rng, families=True):
    """amplitudes over the supported spin structures, both topologies, four lineshape kinds, identical resonances"""
    ev = ["D0"] + (["K-", "pi+", "pi+", "pi-"] if rng.random() < 0.5 else rng.choice([["pi+", "pi-", "pi+", "pi-"], ["pi+", "pi+", "pi-", "pi-"], ["pi-", "K-", "pi+", "pi+"], ["K+", "K-", "pi+", "pi-"]]))
    kpi = "K-" in ev and "K+" not in ev
    doc = [["event_type", ev]]
    lines = []
    for _ in range(rng.randint(1, 4)):
        kind = rng.choice(["VV", "VV-same", "VS", "SS", "AVP", "ASP", "TVP", "PVP", "PSP"])
        if kpi:
            V1, S1 = "K*(892)bar0", "KPi00"
            casc = {"AVP": ("K(1)(1270)bar-", "K*(892)bar0", "pi-", "pi+"), "ASP": ("K(1)(1270)bar-", "KPi00", "pi-", "pi+"),
                    "TVP": ("K(2)*(1430)bar-", "K*(892)bar0", "pi-", "pi+"), "PVP": ("K(1460)bar-", "K*(892)bar0", "pi-", "pi+"),
                    "PSP": ("K(1460)bar-", "PiPi10", "K-", "pi+")}
            if kind == "VV-same":
                kind = "VV"
        else:
            V1, S1 = "rho(770)0", "PiPi00"
            casc = {"AVP": ("a(1)(1260)+", "rho(770)0", "pi+", "pi-"), "ASP": ("a(1)(1260)+", "PiPi20", "pi+", "pi-")}
            if kind in ("TVP", "PVP", "PSP"):
                kind = "AVP"
            if "K+" in ev:
                kind = rng.choice(["VV", "VS"])
        if kind in ("VV", "VV-same", "VS", "SS"):
            if "K+" in ev:
                a, b = "phi(1020)0", rng.choice(["rho(770)0", "PiPi00"] if kind != "VV" else ["rho(770)0", "omega(782)0"])
            else:
                a = V1 if kind in ("VV", "VV-same", "VS") else S1
                if kind == "VV-same":
                    b = a if not kpi else "rho(770)0"
                else:
                    b = rng.choice(["rho(770)0", "rho(1450)0", "omega(782)0"]) if kind == "VV" else rng.choice(["PiPi00", "PiPi10"])
            spin = rng.choice([None, "S", "P", "D"]) if kind.startswith("VV") else None
            ds = [two_body(rng, a), two_body(rng, b)]
            if rng.random() < 0.3 and kind != "VS":
                ds.reverse()
            lines.append(["line", ["D", "D0", spin, None, ds]] + coupling(rng))
        else:
            r3, r2, b3, b4 = casc[kind]
            wave = rng.choice([None, "D"]) if kind == "AVP" else None
            ls3 = rng.choice([None, "GSpline.EFF"]) if r3 in ("K(1)(1270)bar-", "a(1)(1260)+", "K(1460)bar-") else None
            inner = ["D", r3, wave, ls3, [two_body(rng, r2), ["D", b3, None, None, []]]]
            lines.append(["line", ["D", "D0", None, None, [inner, ["D", b4, None, None, []]]]] + coupling(rng))
    doc += lines
    if families:
        doc += required_families(doc, rng)
    return doc, ev


def doc_tags(doc):
    tags, spl = set(), set()

    def walk(d):
        if d[3]:
            tags.add(d[3])
            if d[3] == "GSpline.EFF":
                spl.add(d[1])
        for x in d[4]:
            walk(x)

    for st in doc:
        if st[0] == "line":
            walk(st[1])
    return tags, spl


def required_families(doc, rng, drop=None):
    """the parameter and constant lines the lineshapes of the document need; `drop` leaves one family out"""
    out = []
    tags, spl = doc_tags(doc)
    for nm in sorted(spl):
        cs = [["constant", f"{nm}::Spline::Min", "0.6"], ["constant", f"{nm}::Spline::Max", "3"], ["constant", f"{nm}::Spline::N", "4"]]
        if drop == "spline-consts":
            cs = cs[: rng.randint(0, 2)]
        out += cs
        if drop != "spline-gamma":
            ks = list(range(rng.randint(1, 4)))
            rng.shuffle(ks)
            out += [["variable", f"{nm}::Spline::Gamma::{k}", rng.choice(["2", "0"]), rng.choice(["1.0", "0.5"]), rng.choice(["0", "0.1"])] for k in ks]
    if any(t.startswith("kMatrix") for t in tags):
        names = ["sA0", "sA", "s0_prod", "s0_scatt"]
        if drop == "kmatrix-scalars":
            names.remove(rng.choice(names))
        for n in names:
            out.append(["variable", n, "2", rng.choice(["-0.15", "1", "-0.07"]), "0"])
        if drop != "f_scatt":
            out += [["variable", f"f_scatt{k}", "2", "0.1", "0"] for k in rng.sample(range(5), 3)]
        if drop != "IS_p":
            rows = []
            for i_ in (1, 2):
                for nm in ("pipi", "KK", "4pi", "EtaEta", "EtapEta", "mass"):
                    rows.append(["variable", f"IS_p{i_}_{nm}", "2", rng.choice(["0.22889", "-0.55377", "0"]), "0"])
            rng.shuffle(rows)
            out += rows
    return out


def render_decay(d):
    _, name, spin, ls, subs = d
    s = name
    if spin and ls:
        s += f"[{spin};{ls}]"
    elif spin:
        s += f"[{spin}]"
    elif ls:
        s += f"[{ls}]"
    if subs:
        s += "{" + ",".join(render_decay(x) for x in subs) + "}"
    return s


def render_amp(doc):
    lines = []
    for st in doc:
        k = st[0]
        if k == "event_type":
            lines.append("EventType " + " ".join(st[1]))
        elif k == "constant":
            lines.append(f"{st[1]} {st[2]}")
        elif k == "variable":
            lines.append(f"{st[1]}   {st[2]}   {st[3]}   {st[4]}")
        elif k == "line":
            lines.append(f"{render_decay(st[1])}   {st[2]} {st[3]} {st[4]}   {st[5]} {st[6]} {st[7]}")
        elif k == "fcs":
            lines.append(f"FastCoherentSum::UseCartesian {st[1]}")
    return "\n".join(lines) + "\n"


EXTRA_VARS = ["D0_radius", "x::y", "K(1)(1270)bar-_mass", "Bw_w", "q2", "a(1)(1260)+_width", "K*(892)0'", "p/q", "a--b", "c++", "rho(770)0", "(bs)(0)"]
EXTRA_CONSTS = ["Foo::Bar", "xx", "Weird::Spline::Other", "K(1460)bar-::Spline::N", "a(1)(1260)+::Spline::Knots"]


def gen_case(rng, k):
    """a document, its text and a label saying how it was made"""
    mode = "supported"
    r = rng.random()
    if r < 0.72:
        doc, ev = gen_emit_doc(rng)
    elif r < 0.92:
        drop = rng.choice(["spline-consts", "spline-gamma", "kmatrix-scalars", "f_scatt", "IS_p", "all"])
        doc, ev = gen_emit_doc(rng, families=False)
        if drop != "all":
            doc += required_families(doc, rng, drop=drop)
        mode = "dropped:" + drop
    else:
        # the event type names a resonance of a line (then no mass / width variable is written for it)
        doc, ev = gen_emit_doc(rng)
        mode = "resonance-in-event-type"
        res = [st[1][4][0][1] for st in doc if st[0] == "line" and st[1][4][0][4]]
        if res:
            doc[0] = ["event_type", doc[0][1] + [rng.choice(res)]]
    if rng.random() < 0.5:
        doc.insert(1, ["fcs", rng.choice(["0", "1"])])
    for _ in range(rng.randint(0, 4)):
        doc.append(["variable", rng.choice(EXTRA_VARS) + rng.choice(["", "", "0", "7", "_x"]), rng.choice(["0", "2", "1"]), rng.choice(NUMS), rng.choice(["0", "0.1", "0.0342107"])])
    for _ in range(rng.randint(0, 2)):
        doc.append(["constant", rng.choice(EXTRA_CONSTS), rng.choice(NUMS)])
    if rng.random() < 0.3:
        head, rest = doc[:1], doc[1:]
        rng.shuffle(rest)
        doc = head + rest
    return doc, render_amp(doc), mode


# ----------------------------------------------------------------------------- statements out of the real text
API = {"std", "vector", "Lineshape", "SpinFactor", "Amplitude", "Variable", "constexpr", "fptype", "new", "mkvar",
       "true", "false", "True", "False", "push_back", "back", "append", "DK3P_DI", "meson_radius", "particle_masses",
       "amplitudes_B", "amplitudes", "DecayInfo4", "from", "goofit", "import", "inf", "nan"}
QUALIFIED = re.compile(r"\b(?:SF_4Body|Lineshapes|FF)(?:(?:::|\.)\w+)+")
IDENT = re.compile(r"(?<![\w.])[A-Za-z_]\w*")
MASS_SYM = re.compile(r"M_\d+(?:_\d+)?")
STRING = re.compile(r'"([^"]*)"')


def cut_cpp(text):
    """statements of the C++ fragment: text up to a `;` outside string literals and brackets; comments dropped"""
    text = re.sub(r"/\*.*?\*/", "", text, flags=re.S)
    text = "\n".join(l for l in text.split("\n") if not l.strip().startswith("//"))
    out, cur, depth, instr = [], [], 0, False
    for ch in text:
        cur.append(ch)
        if instr:
            if ch == '"':
                instr = False
        elif ch == '"':
            instr = True
        elif ch in "({[":
            depth += 1
        elif ch in ")}]":
            depth -= 1
        elif ch == ";" and depth == 0:
            out.append("".join(cur).strip())
            cur = []
    rest = "".join(cur).strip()
    if rest:
        out.append("<<unterminated>> " + rest)
    return out


def cut_py(text):
    """statements of the Python script: logical lines (brackets balanced outside string literals); comments dropped"""
    text = re.sub(r"'''.*?'''", "", text, flags=re.S)
    out, cur, depth = [], [], 0
    for line in text.split("\n"):
        if depth == 0 and (not line.strip() or line.lstrip().startswith("#")):
            continue
        cur.append(line)
        instr = False
        for ch in line:
            if instr:
                if ch == '"':
                    instr = False
            elif ch == '"':
                instr = True
            elif ch in "({[":
                depth += 1
            elif ch in ")}]":
                depth -= 1
        if depth == 0:
            out.append("\n".join(cur).strip())
            cur = []
    if cur:
        out.append("<<unterminated>> " + "\n".join(cur))
    return out


DECL_CPP = [
    (re.compile(r"^std::vector<[\w:<>*]+>\s+(\w+)$", re.S), "container"),
    (re.compile(r"^constexpr fptype (\w+)\s*\{[^{}]*\}$", re.S), "const"),
    (re.compile(r"^Variable (\w+)\s*\{[^{}]*\}$", re.S), "var"),
    (re.compile(r"^std::vector<Variable>\s+(\w+) \{\{.*\}\}$", re.S), "array"),
]
DECL_PY = [
    (re.compile(r"^(\w+) = \[\]$", re.S), "container"),
    (re.compile(r"^(\w+)\s*= [-+0-9.eEinfa]+$", re.S), "const"),
    (re.compile(r"^(\w+)\s*= Variable\([^()]*\)$", re.S), "var"),
    (re.compile(r"^(\w+) =\s+\[.*\]$", re.S), "array"),
    (re.compile(r"^(\w+) = DecayInfo4\(\)$", re.S), "api"),
]
COEFF = re.compile(r'(?:mkvar|Variable)\("([^"]*)"')


def statement(stmt, py, region):
    """(section, declared symbols, used symbols) of one statement of the real text"""
    declared, kind = [], None
    stmt = stmt.rstrip(";").strip()
    body = STRING.sub('""', stmt)
    for rx, k in (DECL_PY if py else DECL_CPP):
        m = rx.match(body)
        if m:
            declared, kind = [m.group(1)], k
            break
    coeffs = []
    if kind is None:
        coeffs = COEFF.findall(stmt)
    body = QUALIFIED.sub(" ", body)
    ids = [t for t in IDENT.findall(body) if t not in API and not MASS_SYM.fullmatch(t)]
    uses = [t for t in ids if t not in declared] if kind else ids
    if kind == "api":
        declared = []
    if kind == "container":
        sect = "intro.container"
    elif kind == "const":
        sect = "intro.const"
    elif kind == "var":
        sect = "intro.res" if region == "intro" else "pars.var"
    elif kind == "array":
        sect = "pars.f_scatt" if declared == ["f_scatt"] else "pars.IS_poles" if declared == ["IS_poles"] else "pars.spline"
    elif kind == "api":
        sect = "api"
    else:
        head = stmt.split("(")[0].split("=")[0].strip()
        sect = {"spin_factor_list.push_back": "line.spin", "spin_factor_list.append": "line.spin",
                "line_factor_list.push_back": "line.ls", "line_factor_list.append": "line.ls",
                "amplitudes_list.push_back": "line.amp", "amplitudes_list.append": "line.amp",
                "DK3P_DI.amplitudes_B.push_back": "line.register", "DK3P_DI.amplitudes": "outro",
                "DK3P_DI.particle_masses": "intro.masses", "DK3P_DI.meson_radius": "api", "from goofit import *": "api"}.get(head, "?" + head)
        declared = coeffs
    return [sect, declared, uses]


def real_program(text, py):
    marker = "# Parameters" if py else "// Parameters"
    k = text.find(marker)
    if k < 0:
        raise RuntimeError("no Parameters marker")
    out = []
    for region, part in (("intro", text[:k]), ("rest", text[k:])):
        for s in (cut_py if py else cut_cpp)(part):
            st = statement(s, py, region)
            if st[0] == "api" and not st[1] and not st[2]:
                continue
            if not st[1] and not st[2]:
                continue
            out.append(st)
    return out


def canon(prog):
    """order inside the groups written by iterating a Python set is not compared: the mass constants, the
    (mass, width) pairs of the resonances and the spline arrays are sorted inside their group"""
    out, i = [], 0
    while i < len(prog):
        sect = prog[i][0]
        if sect in ("intro.const", "pars.spline"):
            j = i
            while j < len(prog) and prog[j][0] == sect:
                j += 1
            out += sorted(prog[i:j])
            i = j
        elif sect == "intro.res":
            j = i
            while j < len(prog) and prog[j][0] == sect:
                j += 1
            grp = prog[i:j]
            pairs = [grp[a:a + 2] for a in range(0, len(grp), 2)]
            for p in sorted(pairs):
                out += p
            i = j
        else:
            out.append(prog[i])
            i += 1
    return out


def closed(prog):
    env = set()
    bad = []
    for sect, dec, use in prog:
        for u in use:
            if u not in env:
                bad.append((sect, u))
        env |= set(dec)
    return bad


# ----------------------------------------------------------------------------- the model input
def opt(x):
    return "N" if x is None else x


def node_wire(line):
    p = line.particle
    quarks = p.quarks or ""
    return [line.name if line.daughters else p.name, p.spin_type.name, int(round(2 * float(p.J))) if p.J is not None else 0, "c" in quarks.lower(),
            p.programmatic_name, opt(line.spinfactor), opt(line.lineshape), [node_wire(d) for d in line.daughters]]


def part_wire(p):
    return [str(int(p.pdgid)), str(p), p.programmatic_name]


def model_input(cls, path):
    lines, states = cls.read_ampgen(path)
    ev = [part_wire(p) for p in states]
    allp = sorted(part_wire(p) for p in cls.all_particles)
    pars = [[name, bool(par.fix), repr(float(par.value)), repr(float(par.error))] for name, par in cls.pars.iterrows()]
    consts = [[name, repr(float(c.value))] for name, c in cls.consts.iterrows()]
    lns = [[str(l), node_wire(l)] for l in lines]
    return ["prog", ev, allp, pars, consts, lns]


def model_program(ans):
    if ans[0] != "ok":
        return ("err", ans)
    return ("ok", [[s[0], list(s[1]), list(s[2])] for s in ans[1]])


