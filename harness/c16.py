"""C16: printed decay-mode tables show every mode once, correctly ordered and scaled."""
from __future__ import annotations

import contextlib
import io
import itertools
from fractions import Fraction

from . import gen
from .common import Batch, Result, canon_json, conv_tree, fl, frac, raw_parse, render_doc, rng_for

BF_POOL = ["1.0", "0.5", "0.5", "0.25", "0.125", "0.3", "0.3", "0.2", "0.0271", "0.0542", "0.08", "0.533", "1e-3", "2E-4", ".5",
           "1.", "1e-12", "3.3392e-05", "6.5e-08", "0.98823", "0.011738247", "0.1", "0.7", "1e-7", "0.00001234", "0"]


def near_tie(q: Fraction) -> bool:
    """is the exact value within 1e-9 (relative) of a rounding boundary of the 7th significant digit?"""
    if q == 0:
        return False
    q = abs(q)
    import math

    e = math.floor(math.log10(q))
    scaled = q * Fraction(10) ** (6 - e)
    r = scaled - int(scaled)
    return abs(r - Fraction(1, 2)) < Fraction(1, 10**3) or r < Fraction(1, 10**4) and False


def run(ctx):
    from decaylanguage import DecFileParser

    tier, seed = ctx["tier"], ctx["seed"]
    rng = rng_for(seed, "c16")
    res = Result("generated tables (1..12 lines, ties, values 1e-12..1, zero) x all option combinations (model on/off, PHOTOS "
                 "keyword on/off, ascending on/off, none/normalize/scale in and outside (0,1], PDG name); printed text compared "
                 "token-wise; non-trivial = distinct (table, options) with >= 3 lines")
    batch = Batch(ctx["driver_ok"])
    n_tables = 40 if tier == "quick" else 500
    scales = [None, Fraction(1, 4), Fraction(1, 2), Fraction(1), Fraction(0), Fraction(3, 2), Fraction(-1)]

    def py_str_num(q: Fraction) -> str:
        return str(q.numerator / q.denominator)

    def one(p, wire, text, mother, opts, label):
        pdg, pm, dp, asc, norm, sc = opts
        case = {"kind": "print", "label": label, "text": text, "mother": mother,
                "options": {"pdg_name": pdg, "print_model": pm, "display_photos_keyword": dp, "ascending": asc, "normalize": norm,
                            "scale": None if sc is None else str(sc)}}
        before = canon_json([[float(x["bf"]) if False else None] for x in []])
        stored_before = [(m, [p._decay_mode_details(dm) for dm in p._find_decay_modes(m)]) for m in p.list_decay_mother_names()]
        buf = io.StringIO()
        err = None
        try:
            with contextlib.redirect_stdout(buf):
                p.print_decay_modes(mother, pdg_name=pdg, print_model=pm, display_photos_keyword=dp, ascending=asc,
                                    normalize=norm, scale=None if sc is None else float(sc))
        except Exception as e:
            err = type(e).__name__
        stored_after = [(m, [p._decay_mode_details(dm) for dm in p._find_decay_modes(m)]) for m in p.list_decay_mother_names()]
        if canon_json(stored_before) != canon_json(stored_after):
            res.violation("printing altered the stored values", case, clause="stored values")
        lines = [l for l in buf.getvalue().split("\n") if l != ""]
        res.count("prints")
        if res.evaluations % 5 == 0:
            def again(p=p, mother=mother, opts=opts):
                b = io.StringIO()
                try:
                    with contextlib.redirect_stdout(b):
                        p.print_decay_modes(mother, pdg_name=opts[0], print_model=opts[1], display_photos_keyword=opts[2], ascending=opts[3],
                                            normalize=opts[4], scale=None if opts[5] is None else float(opts[5]))
                except Exception as e:
                    return "raised " + type(e).__name__
                return [l for l in b.getvalue().split("\n") if l != ""]

            res.remember(case, again, lines if err is None else "raised " + err)

        def on(ans, case=case, lines=lines, err=err):
            if ans is None:
                return
            if ans[0] == "err" and ans[1] == "ZeroDivisionError":
                # a table whose fractions are all zero cannot be normalised or scaled: the property does not say what happens then
                # (the unchanged code raises ZeroDivisionError; a table of zeros would be as good) - nothing is compared
                res.count("all_zero_table_normalised_or_scaled")
                return
            if ans[0] == "err":
                want_err = {"RuntimeError": "RuntimeError", "ZeroDivisionError": "ZeroDivisionError", "DecayNotFound": "DecayNotFound",
                            "UnknownPdgName": "MatchingIDNotFound"}.get(ans[1], ans[1])
                if err != want_err:
                    res.violation(f"options should be refused with {want_err}, the code gave {err or 'a table'}", case, impl=err or lines[:3], model=ans,
                                  clause="refusal of contradictory / out-of-range options")
                return
            if err is not None:
                res.violation(f"print_decay_modes raised {err}", case, impl=err, model="table", clause="printing")
                return
            rows = ans[1]
            if len(lines) != len(rows):
                res.violation("number of rows is not the number of decay lines", case, impl=lines, model=len(rows), clause="one row per line")
                return
            for ln, row in zip(lines, rows):
                shown, exact, ds, model, params = row
                toks = ln.split()
                want = [shown] + list(ds)
                if model != "N":
                    want += model[0].split()
                    want += [py_str_num(frac(x[1])) if x[0] == "num" else x[1] for x in params]
                want[-1] = want[-1] + ";"
                if not ln.endswith(";"):
                    res.violation("row does not end with ';'", case, impl=ln, clause="row layout")
                    return
                if toks != want:
                    # the value column may differ when the exact quotient sits at a rounding boundary of the floats
                    if toks[1:] == want[1:] and near_tie(frac(exact)):
                        res.skipped += 1
                        continue
                    if toks[1:] == want[1:]:
                        try:
                            close = abs(float(toks[0]) - float(shown)) <= 2e-6 * abs(float(shown))
                        except ValueError:
                            close = False
                        clause = "value shown (7 significant digits, scaled)"
                    else:
                        clause = "rows: order / daughters / model / parameters / PHOTOS"
                    res.violation("printed row differs", case, impl=ln, model=" ".join(want), clause=clause)
                    return

        batch.add(["print_rows", [True], wire, mother,
                   [pdg, pm, dp, asc, norm, None if sc is None else [sc]]], on)
        n_lines = len(lines)
        nt = canon_json([text, case["options"]]) if n_lines >= 3 else None
        res.case(nt, {"options": case["options"], "printed": lines[:3]} if nt and len(res.samples) < 3 else None)

    pdg_named = [("K(S)0", "K_S0"), ("pi0", "pi0"), ("D(s)+", "D_s+"), ("B0", "B0")]
    for i in range(n_tables):
        n_lines = rng.choice([1, 2, 3, 4, 5, 6, 8, 12])
        use_pdg = rng.random() < 0.3
        pdgname, mother = rng.choice(pdg_named) if use_pdg else (None, rng.choice(["A", "MyD_0*+", "B_s0", "X(3872)"]))
        names = gen.safe_names(rng, 6)
        lines = []
        for _ in range(n_lines):
            lines.append([rng.choice(BF_POOL) if rng.random() < 0.8 else repr(round(rng.random(), rng.randint(1, 9))),
                          [rng.choice(names) for _ in range(rng.randint(0 if rng.random() < 0.1 else 1, 4))],
                          rng.random() < 0.3, rng.choice(gen.MODEL_CHOICES)])
        defs_ = []
        if rng.random() < 0.35:
            # model parameters written as Define'd names (also negated): the parameters shown are the stored values
            defs_ = [["define", "dm", rng.choice(["0.507e12", "0.5", "-2E-4"])], ["define", "beta", rng.choice(["0.39", "1", "3.14159"])]]
            for l in rng.sample(lines, min(len(lines), rng.choice([1, 2]))):
                l[3] = ["named", rng.choice(["VSS_BMIX", "SSD_CP", "HELAMP"]), [["word", "dm"], ["num", "1.0"], ["word", "-beta"], ["word", "free_text"]]]
        if rng.random() < 0.1:
            for l in lines:
                l[0] = "0"     # all-zero table: division by zero when normalising or scaling
        elif rng.random() < 0.12:
            for l in lines:
                l[0] = rng.choice(["1.1e-10", "5e-11", "4e-11", "1e-12", "2.5e-13", "1e-15"])     # a block of rare decays only: tiny, not zero
        doc = [["decay", mother, lines]]
        if defs_:
            doc = (defs_ + doc) if rng.random() < 0.5 else (doc + defs_)
        if rng.random() < 0.3:
            doc.insert(0, ["decay", "Other", [["1.0", ["x"], False, ["named", "PHSP", None]]]])
        # tables derived from the printed one (a conjugate through CDecay, a copy through CopyDecay) in the same file: printed
        # next to their source on the same parser object, every table shows its own lines
        targets = [mother]
        if use_pdg and pdgname != mother and rng.random() < 0.5:
            # a second block whose mother is an alias spelled like the PDG name: asked for by PDG name, the table shown is that of
            # the particle the PDG name denotes (its EvtGen spelling), not the block that happens to be spelled like the request
            doc.append(["alias", pdgname, mother])
            doc.insert(rng.choice([0, len(doc)]), ["decay", pdgname, [["1", ["q1", "q2"], True, ["named", "VSS", None]]]])
        if not use_pdg and rng.random() < 0.35:
            doc.append(["chargeconj", mother, "anti-" + mother if gen.safe_label("anti-" + mother) else "Conj1"])
            doc.append(["cdecay", doc[-1][2]])
            targets.append(doc[-1][1])
        if not use_pdg and rng.random() < 0.2:
            doc.append(["copydecay", "MyCopy", mother])
            targets.append("MyCopy")
        if len(doc) > 1 and doc[0][1] == "Other" and rng.random() < 0.5:
            targets.append("Other")
        text = render_doc(doc)
        try:
            p = DecFileParser.from_string(text)
            p.parse()
            wire = conv_tree(raw_parse(text))
        except Exception:
            res.skipped += 1
            continue
        combos = list(itertools.product([False, True], [True, False], [True, False], [False, True], [False, True], scales))
        if tier == "quick":
            combos = rng.sample(combos, 40)
        for (pdg, pm, dp, asc, norm, sc) in combos:
            if pdg and not use_pdg:
                continue
            m = pdgname if pdg else (mother if len(targets) == 1 else rng.choice(targets))
            one(p, wire, text, m, (pdg, pm, dp, asc, norm, sc), "generated" if m == mother or pdg else "generated:derived")
        one(p, wire, text, "nosuchmother", (False, True, True, False, False, None), "missing")
    # scale values that are no numbers of ]0, 1]: not-a-number and the infinities are out of range like any other such value
    s0 = "Decay A\n 0.5 b c PHSP;\n 0.25 d PHSP;\nEnddecay\n"
    p0 = DecFileParser.from_string(s0)
    p0.parse()
    for bad in (float("nan"), float("inf"), float("-inf")):
        for asc in (False, True):
            buf = io.StringIO()
            try:
                with contextlib.redirect_stdout(buf):
                    p0.print_decay_modes("A", scale=bad, ascending=asc)
                got = "printed: " + buf.getvalue()[:80]
            except RuntimeError:
                got = "RuntimeError"
            except Exception as e:
                got = type(e).__name__
            res.case()
            res.count("non_finite_scales")
            if got != "RuntimeError":
                res.violation("a scale outside ]0, 1] is not refused", {"kind": "print", "text": s0, "mother": "A", "options": {"scale": repr(bad), "ascending": asc}},
                              impl=got, model="RuntimeError", clause="refusal of contradictory / out-of-range options")
    # the documented example
    s = "Decay MyD_0*+\n 0.533   MyD0   pi+        PHSP;\n 0.08    MyD*0  pi+  pi0   PHSP;\n 0.0271  MyD*+  pi0  pi0   PHSP;\n 0.0542  MyD*+  pi+  pi-   PHSP;\nEnddecay\n"
    p = DecFileParser.from_string(s)
    p.parse()
    w = conv_tree(raw_parse(s))
    for opts in itertools.product([False], [True, False], [True], [False, True], [False, True], [None, Fraction(1, 2)]):
        one(p, w, s, "MyD_0*+", opts, "docstring")
    batch.run()
    return res.done()
