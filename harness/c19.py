"""C19: C++ and Python GooFit outputs describe the same, self-contained model."""
from __future__ import annotations

import contextlib
import io
import json
import os
import re
import shutil
import subprocess
import sys
import tempfile
import types

from . import ampcommon as A
from .c18 import parse_amp_text
from .common import Result, canon_json, rng_for

NUM = r"[-+0-9.eEinfa]+"


def fnum(s):
    try:
        return float(s)
    except ValueError:
        return s


def strip_stamp(text):
    return "\n".join(l for l in text.split("\n") if not l.startswith("Generated on"))


def parse_output(text, py):
    """the declarations of one output, in comparable form"""
    d = {"event": None, "masses": {}, "resvars": {}, "fitpars": [], "arrays": {}, "amps": [], "particle_masses": None}
    if py:
        m = re.search(r"^#Event type: (.*)$", text, re.M)
        d["event"] = m.group(1).strip() if m else None
        for m in re.finditer(r"^(\w+)\s+= (%s)\s*$" % NUM, text, re.M):
            d["masses"][m.group(1)] = fnum(m.group(2))
        for m in re.finditer(r'^(\w+)\s+= Variable\("(\w+)"\s*, (%s)\s*\)$' % NUM, text, re.M):
            if m.group(1) == m.group(2) and m.group(1).endswith(("_M", "_W")):
                d["resvars"][m.group(1)] = fnum(m.group(3))
        for m in re.finditer(r'^(\w+) = Variable\("([^"]+)", (%s)(?:, (%s) )?\)$' % (NUM, NUM), text, re.M):
            d["fitpars"].append([m.group(1), m.group(2), fnum(m.group(3)), fnum(m.group(4)) if m.group(4) else None])
        for m in re.finditer(r"^(\w+) =\s+\[\n(.*?)\]$", text, re.M | re.S):
            d["arrays"][m.group(1)] = [x.strip() for x in m.group(2).split(",") if x.strip()]
        m = re.search(r"^DK3P_DI\.particle_masses = \((.*)\)$", text, re.M)
        d["particle_masses"] = [x.strip() for x in m.group(1).split(",")] if m else None
        blocks = re.split(r"^# Line \d+\n", text, flags=re.M)[1:]
        for b in blocks:
            sfs, lss, n = parse_amp_text(b, True)
            nm = re.search(r'amplitudes_list\.append\(Amplitude\(\n\s+"([^"]*)",', b)
            co = re.findall(r'Variable\("([^"]*)", (%s)(?:,(%s), 0\., 1000\.)?\)' % (NUM, NUM), b)
            d["amps"].append({"name": nm.group(1) if nm else None,
                              "coeffs": [[c[0], fnum(c[1]), fnum(c[2]) if c[2] else None] for c in co[-2:]] if len(co) >= 2 else co,
                              "fixed": [c[2] == "" for c in co[-2:]], "sfs": sfs, "lss": [l[:5] + l[6:8] for l in lss], "extra": [l[5] for l in lss], "n": n})
    else:
        m = re.search(r"^\s+// Event type: (.*)$", text, re.M)
        d["event"] = m.group(1).strip() if m else None
        for m in re.finditer(r"^\s+constexpr fptype (\w+)\s+\{ (%s)\s*\};$" % NUM, text, re.M):
            d["masses"][m.group(1)] = fnum(m.group(2))
        for m in re.finditer(r'^\s+Variable (\w+)\s+\{ "(\w+)"\s*, (%s)\s*\};$' % NUM, text, re.M):
            d["resvars"][m.group(1)] = fnum(m.group(3))
        for m in re.finditer(r'^\s+Variable (\w+) \{"([^"]+)", (%s)(?:, (%s))? \};$' % (NUM, NUM), text, re.M):
            d["fitpars"].append([m.group(1), m.group(2), fnum(m.group(3)), fnum(m.group(4)) if m.group(4) else None])
        for m in re.finditer(r"^\s+std::vector<Variable>\s+(\w+) \{\{\n(.*?)\n\s+\}\};$", text, re.M | re.S):
            d["arrays"][m.group(1)] = [x.strip() for x in m.group(2).split(",") if x.strip()]
        m = re.search(r"^\s+DK3P_DI\.particle_masses = \{(.*)\};$", text, re.M)
        d["particle_masses"] = [x.strip() for x in m.group(1).split(",")] if m else None
        blocks = re.split(r"^    // Line \d+\n", text, flags=re.M)[1:]
        for b in blocks:
            sfs, lss, n = parse_amp_text(b, False)
            nm = re.search(r'new Amplitude\{\n\s+"([^"]*)",', b)
            co = re.findall(r'mkvar\("([^"]*)", (true|false), (%s), (%s)\)' % (NUM, NUM), b)
            d["amps"].append({"name": nm.group(1) if nm else None,
                              "coeffs": [[c[0], fnum(c[2]), fnum(c[3]) if c[1] == "false" else None] for c in co],
                              "fixed": [c[1] == "true" for c in co], "sfs": sfs, "lss": [l[:5] + l[6:8] for l in lss], "extra": [l[5] for l in lss], "n": n})
    return d


USE_RE = re.compile(r"\b(\w+_M|\w+_W|\w+_SplineArr|sA_0|sA|s0_prod|s0_scatt|f_scatt|IS_poles)\b")


def undeclared_uses(text, py, allow=()):
    """model symbols used in the amplitude section that are not declared earlier in the same output"""
    marker = "# Lines" if py else "// Lines"
    k = text.find(marker)
    if k < 0:
        return ["<no Lines section>"]
    head, body = text[:k], text[k:]
    declared = set(re.findall(r"^\s*(?:Variable |constexpr fptype |std::vector<Variable>\s+)?(\w+)\s*(?:=|\{)", head, re.M))
    used = []
    for m in USE_RE.finditer(body):
        s = m.group(1)
        if re.fullmatch(r"M_\d+(_\d+)?", s):
            continue
        if s not in used:
            used.append(s)
    return [s for s in used if s not in declared and s not in allow]


class _Any:
    def __init__(self, name="x"):
        self._n = name

    def __call__(self, *a, **k):
        return _Any(self._n + "()")

    def __getattr__(self, k):
        if k.startswith("__"):
            raise AttributeError(k)
        return _Any(self._n + "." + k)

    def __setattr__(self, k, v):
        object.__setattr__(self, k, v)


class _Locals(dict):
    def __missing__(self, k):
        if re.fullmatch(r"M_\d+(_\d+)?", k):
            return k
        raise KeyError(k)


def run_python_output(text, prebound=()):
    """compile the generated script and execute it against a recording stand-in for goofit"""
    mod = types.ModuleType("goofit")
    for n in ("DecayInfo4", "Variable", "Lineshapes", "FF", "SpinFactor", "SF_4Body", "Amplitude"):
        setattr(mod, n, _Any(n))
    mod.__all__ = ["DecayInfo4", "Variable", "Lineshapes", "FF", "SpinFactor", "SF_4Body", "Amplitude"]
    saved = sys.modules.get("goofit")
    sys.modules["goofit"] = mod
    try:
        code = compile(text, "<generated>", "exec")
        loc = _Locals()
        for s in prebound:
            loc[s] = _Any(s)
        exec(code, {"__builtins__": __builtins__}, loc)
        return None
    except Exception as e:
        return f"{type(e).__name__}: {e}"
    finally:
        if saved is None:
            sys.modules.pop("goofit", None)
        else:
            sys.modules["goofit"] = saved


def compare_languages(c, p):
    diffs = []
    if c["event"] != p["event"]:
        diffs.append(["event type", c["event"], p["event"]])
    if c["masses"] != p["masses"]:
        diffs.append(["mass constants", c["masses"], p["masses"]])
    if c["resvars"] != p["resvars"]:
        diffs.append(["resonance mass/width variables", sorted(set(c["resvars"].items()) ^ set(p["resvars"].items()))])
    if c["fitpars"] != p["fitpars"]:
        diffs.append(["fit parameters (name, value, error, fixedness)", [x for x in c["fitpars"] if x not in p["fitpars"]][:3], [x for x in p["fitpars"] if x not in c["fitpars"]][:3]])
    if c["arrays"] != p["arrays"]:
        diffs.append(["parameter arrays", c["arrays"], p["arrays"]])
    if c["particle_masses"] != p["particle_masses"]:
        diffs.append(["particle_masses", c["particle_masses"], p["particle_masses"]])
    if len(c["amps"]) != len(p["amps"]):
        diffs.append(["number of amplitudes", len(c["amps"]), len(p["amps"])])
    for a, b in zip(c["amps"], p["amps"]):
        for k in ("name", "sfs", "lss", "n", "fixed"):
            if a[k] != b[k]:
                diffs.append([f"amplitude {a['name']}: {k}", a[k] if k != "lss" else a[k][:3], b[k] if k != "lss" else b[k][:3]])
        ca = [[x[0], x[1]] for x in a["coeffs"]]
        cb = [[x[0], x[1]] for x in b["coeffs"]]
        if ca != cb:
            diffs.append([f"amplitude {a['name']}: coefficient names / values", ca, cb])
    return diffs


def needed_minus_defined(doc):
    """symbols the lineshapes need that the input file does not define (then the premise of the property does not hold for them)"""
    names = {st[1] for st in doc if st[0] == "variable"}
    missing = []
    tags = []

    def walk(d):
        if d[3]:
            tags.append(d[3])
        for x in d[4]:
            walk(x)

    for st in doc:
        if st[0] == "line":
            walk(st[1])
    if any(t.startswith("kMatrix") for t in tags):
        for s, written in (("sA_0", "sA0"), ("sA", "sA"), ("s0_prod", "s0_prod"), ("s0_scatt", "s0_scatt")):
            if written not in names:
                missing.append(s)
        if not any("f_scatt" in n for n in names):
            missing.append("f_scatt")
        if not any("IS_p" in n for n in names):
            missing.append("IS_poles")
    return missing


def run(ctx):
    from decaylanguage.modeling.ampgen2goofit import ampgen2goofit, ampgen2goofitpy

    tier, seed = ctx["tier"], ctx["seed"]
    rng = rng_for(seed, "c19")
    res = Result("the shipped model models/DtoKpipipi_v2.txt and generated four-body option files (supported spin structures, both "
                 "topologies, four lineshape kinds, fit parameters with fix flag and error varied independently, spline and K-matrix "
                 "families, fixed/free couplings) converted to both languages, in sequences A, B, A per language; both outputs parsed "
                 "into declarations; Python output executed against a stand-in for goofit; returned text against printed text; "
                 "non-trivial = distinct file with >= 2 amplitudes or a parameter family")
    A.install_cache()
    tmp = tempfile.mkdtemp(prefix="verif_c19_")
    n_docs = 12 if tier == "quick" else 150
    files = []
    shipped = os.path.join(os.environ.get("VERIF_REPO", "/repo"), "models", "DtoKpipipi_v2.txt")
    shipped_doc = A.conv_amp_tree(A.raw_amp_parse(open(shipped).read()))
    files.append((shipped, shipped_doc, "shipped"))
    for i in range(n_docs):
        doc, ev = A.gen_emit_doc(rng)
        for _ in range(rng.randint(1, 4)):
            doc.append(["variable", rng.choice(["D0_radius", "x::y", "K(1)(1270)bar-_mass", "Bw_w", "q2"]) + str(rng.randint(0, 9)),
                        rng.choice(["0", "2", "0", "2", "1"]), rng.choice(A.NUMS), rng.choice(["0", "0", "0.1", "0.0342107"])])
        path = os.path.join(tmp, f"g{i}.txt")
        open(path, "w").write(A.render_amp(doc))
        files.append((path, doc, "generated"))

    # two files that always have spline resonances whose number of bins disagrees with the number of knot parameters written
    # (fewer bins than knots: a file whose N was lowered; more bins than knots)
    for j, delta in enumerate((-1, 2)):
        doc = [["event_type", ["D0", "K-", "pi+", "pi+", "pi-"]]]
        for r3 in ("K(1)(1270)bar-", "K(1460)bar-"):
            r2, b = A.CASCADE[r3][0]
            doc.append(["line", ["D", "D0", None, None, [["D", r3, None, "GSpline.EFF", [A.two_body(rng, r2), ["D", b, None, None, []]]],
                                                         ["D", A.BACHELOR[r3], None, None, []]]]] + A.coupling(rng))
        doc += A.required_families(doc, rng)
        for st in doc:
            if st[0] == "constant" and st[1].endswith("::Spline::N"):
                nm = st[1][: -len("::Spline::N")]
                st[2] = str(max(1, sum(1 for s2 in doc if s2[0] == "variable" and s2[1].startswith(nm + "::Spline::Gamma::")) + delta))
        path = os.path.join(tmp, f"knots{j}.txt")
        open(path, "w").write(A.render_amp(doc))
        files.append((path, doc, "generated:knots-vs-bins"))

    for j, (doc, ev) in enumerate(A.other_family_docs()):
        path = os.path.join(tmp, f"family{j}.txt")
        open(path, "w").write(A.render_amp(doc))
        files.append((path, doc, "generated:other-families"))

    def check_one(path, doc, label, ctext, ptext, step):
        case = {"kind": "convert", "label": label, "file": open(path).read() if label != "shipped" else "models/DtoKpipipi_v2.txt", "step": step}
        c = parse_output(ctext, False)
        p = parse_output(ptext, True)
        diffs = compare_languages(c, p)
        if diffs:
            res.violation("the two outputs do not describe the same model: " + diffs[0][0], case, impl=diffs[:4], clause="same declarations in both languages: " + diffs[0][0])
        allow = needed_minus_defined(doc)
        for text, py in ((ctext, False), (ptext, True)):
            und = undeclared_uses(text, py, allow)
            if und:
                res.violation("a model symbol is used but not declared earlier in the same output", dict(case, language="python" if py else "c++"), impl=und, clause="every symbol declared before use")
        for amps, lang in ((c["amps"], "c++"), (p["amps"], "python")):
            for a in amps:
                names = [x[0] for x in a["coeffs"]]
                if len(names) != 2 or names[0] == names[1]:
                    res.violation("real and imaginary coefficients do not have distinct names", dict(case, language=lang), impl=names, clause="distinct coefficient names",
                                  finding_key="F5")
                    break
        n_lines = sum(1 for st in doc if st[0] == "line")
        if len(c["amps"]) == 0 and n_lines:
            res.violation("no amplitude found in the output", case, clause="conversion")
        err = run_python_output(ptext, prebound=allow)
        if err:
            res.violation("the Python output does not run against the GooFit API stand-in", case, impl=err, clause="valid Python")
        nt = canon_json([label, case["file"][:200], step]) if (len(c["amps"]) >= 2 or c["arrays"]) else None
        res.case(nt, {"file": case["file"][:300], "amplitudes": [a["name"] for a in c["amps"]][:3]} if nt and len(res.samples) < 3 else None)
        res.count("conversions")

    def convert(path, py):
        try:
            return (ampgen2goofitpy if py else ampgen2goofit)(path, ret_output=True)
        except Exception as e:
            return f"ERROR {type(e).__name__}: {e}"

    # sequences A, B, A in each language (the same file converted again after another one)
    order = list(range(len(files)))
    for k in range(0, len(order), 2):
        grp = [files[i] for i in order[k:k + 2]]
        if len(grp) == 1:
            grp = grp + [files[0]]
        (pa, da, la), (pb, db, lb) = grp
        outs = {}
        for py in (False, True):
            outs[(0, py)] = convert(pa, py)
            outs[(1, py)] = convert(pb, py)
            outs[(2, py)] = convert(pa, py)
        for step, (pth, dc, lbl) in ((0, grp[0]), (1, grp[1]), (2, grp[0])):
            ctext, ptext = outs[(step, False)], outs[(step, True)]
            bad = [t for t in (ctext, ptext) if t is None or t.startswith("ERROR")]
            if bad:
                fk = "F10" if "is_nucleus" in str(bad[0]) else None
                res.violation(f"conversion failed: {str(bad[0])[:200]}", {"kind": "convert", "label": lbl, "file": open(pth).read()[:1500], "step": step},
                              clause="converts to both languages", finding_key=fk)
                res.case()
                continue
            check_one(pth, dc, lbl, ctext, ptext, step)
        if strip_stamp(outs[(0, False)] or "") != strip_stamp(outs[(2, False)] or "") and not str(outs[(0, False)]).startswith("ERROR"):
            a, b = strip_stamp(outs[(0, False)]).split("\n"), strip_stamp(outs[(2, False)]).split("\n")
            if sorted(a) != sorted(b):
                res.violation("converting the same file again after another one gives a different output", {"kind": "sequence", "files": [pa, pb]},
                              impl=[x for x in b if x not in a][:5], clause="self-contained output")
    # returned text = printed text
    for (path, doc, label) in files[: (3 if tier == "quick" else 20)]:
        for fn, py in ((ampgen2goofit, False), (ampgen2goofitpy, True)):
            buf = io.StringIO()
            try:
                with contextlib.redirect_stdout(buf):
                    r = fn(path)
                ret = fn(path, ret_output=True)
            except Exception as e:
                res.violation(f"conversion failed: {type(e).__name__}", {"kind": "print", "file": path}, clause="converts")
                continue
            res.case()
            res.count("returned_vs_printed")
            if r is not None or strip_stamp(buf.getvalue()) != strip_stamp(ret):
                pa_, pb_ = strip_stamp(buf.getvalue()).split("\n"), strip_stamp(ret).split("\n")
                missing = [x for x in pa_ if x not in pb_][:5]
                res.violation("the text returned as a string is not the text that is printed otherwise", {"kind": "print", "file": path if label == "shipped" else open(path).read()[:800],
                                                                                                       "language": "python" if py else "c++"},
                              impl={"printed_but_not_returned": missing}, clause="returned text = printed text", finding_key="F6")
    # command-line entry point
    n_cli = 1 if tier == "quick" else 6
    for (path, doc, label) in files[1:1 + n_cli]:
        for gen_, py in (("goofit", False), ("goofitpy", True)):
            env = dict(os.environ)
            p = subprocess.run([sys.executable, "-m", "decaylanguage", "-G", gen_, path], capture_output=True, text=True, env=env, timeout=600)
            ret = convert(path, py)
            res.case()
            res.count("cli")
            if p.returncode != 0 or sorted(strip_stamp(p.stdout).rstrip("\n").split("\n")) != sorted(strip_stamp(ret).rstrip("\n").split("\n")):
                res.violation("command-line conversion differs from the function call", {"kind": "cli", "file": open(path).read()[:800], "generator": gen_},
                              impl=(p.stderr or "")[-300:], clause="command-line entry point")
    # the file named on the command line is the file that is converted, whatever characters its name has: names and directories
    # with brackets, a star, a question mark, blanks (legal file names), next to a neighbour that a shell-style reading of the name
    # as a pattern would pick instead
    import shutil

    odd_names = [("model[v2].txt", ["model2.txt", "modelv.txt"]), ("fit[1].opt", ["fit1.opt"]), ("run[2024]/model.txt", ["run2/model.txt", "run0/model.txt"]),
                 ("a*b.txt", ["aXb.txt", "ab.txt"]), ("what?.txt", ["whatX.txt"]), ("my model (final).txt", []), ("[abc]", ["a", "b"])]
    picks = odd_names if tier == "thorough" else [odd_names[seed % len(odd_names)], odd_names[(seed + 3) % len(odd_names)]]
    if len(files) >= 2:
        for k, (odd, neighbours) in enumerate(picks):
            src, other = files[1][0], files[0][0]
            base = os.path.join(tmp, f"cli_odd_{k}")
            target = os.path.join(base, odd)
            os.makedirs(os.path.dirname(target), exist_ok=True)
            shutil.copyfile(src, target)
            for nb in neighbours:
                os.makedirs(os.path.dirname(os.path.join(base, nb)), exist_ok=True)
                shutil.copyfile(other, os.path.join(base, nb))
            gen_, py = (("goofit", False), ("goofitpy", True))[(seed + k) % 2] if tier == "quick" else (None, None)
            for gen_, py in ([(gen_, py)] if gen_ else [("goofit", False), ("goofitpy", True)]):
                p = subprocess.run([sys.executable, "-m", "decaylanguage", "-G", gen_, target], capture_output=True, text=True, env=dict(os.environ), timeout=600)
                ret = convert(src, py)
                res.case()
                res.count("cli_odd_file_names")
                if p.returncode != 0 or sorted(strip_stamp(p.stdout).rstrip("\n").split("\n")) != sorted(strip_stamp(ret).rstrip("\n").split("\n")):
                    res.violation("the command line does not convert the file it is given (a file name with pattern-like characters)",
                                  {"kind": "cli", "file_name": odd, "neighbours": neighbours, "file": open(src).read()[:800], "generator": gen_},
                                  impl={"exit": p.returncode, "stdout_lines": len(p.stdout.split("\n")), "stderr": (p.stderr or "")[-300:]}, clause="command-line entry point")
    # ---- program tie: the declaration / use structure of both real outputs against the model (progCpp / progPy), the model's
    # closure verdict against the real text, and "Supported => closed" (theorems C19_closed_cpp / _py) on the real outputs
    from decaylanguage.modeling.goofit import GooFitChain, GooFitPyChain, programmatic_name

    from . import progtie as PT
    from .common import Batch
    batch = Batch(ctx["driver_ok"])
    n_prog = 40 if tier == "quick" else 400
    prog_files = [(shipped, "shipped")]
    for k in range(n_prog):
        doc, text, mode = PT.gen_case(rng, k)
        path = os.path.join(tmp, f"pt{k}.txt")
        open(path, "w").write(text)
        prog_files.append((path, mode))
    names_seen = set()
    for path, mode in prog_files:
        case = {"kind": "program", "mode": mode, "file": open(path).read()[:1500] if mode != "shipped" else "models/DtoKpipipi_v2.txt"}
        try:
            op_c = PT.model_input(GooFitChain, path)
            op_p = PT.model_input(GooFitPyChain, path)
        except Exception as e:
            res.violation(f"read_ampgen raised {type(e).__name__}: {str(e)[:120]}", case, clause="reads")
            continue
        if op_c != op_p:
            res.violation("the two reader classes read different inputs from one file", case, clause="same declarations in both languages: input")
            continue
        names_seen.update(r[0] for r in op_c[3])
        names_seen.update(r[0] for r in op_c[4])
        real = {}
        for py in (False, True):
            t = convert(path, py)
            if t.startswith("ERROR"):
                real[py] = ("err", t)
            else:
                try:
                    rp = PT.real_program(t, py)
                    odd = [x for x in rp if x[0].startswith("?") or "<<unterminated>>" in str(x)]
                    real[py] = ("odd", odd[:2]) if odd else ("ok", rp)
                except Exception as e:
                    real[py] = ("odd", str(e))
        res.case(canon_json(case) if mode == "supported" else None)
        res.count("programs:" + mode)

        def onp(ans, case=case, real=real, mode=mode):
            if ans is None:
                return
            if ans[0] != "ok":
                res.violation("the model refuses the operation", case, model=ans, clause="model tie: program")
                return
            m_cpp, m_py, m_supported, m_closed_c, m_closed_p = ans[1]
            for py, m_ans, m_closed in ((False, m_cpp, m_closed_c), (True, m_py, m_closed_p)):
                lang = "python" if py else "c++"
                kind, mp = PT.model_program(m_ans)
                rk, rp = real[py]
                c2 = dict(case, language=lang)
                if rk == "odd":
                    res.violation("a statement of unknown form in the real output", c2, impl=rp, clause="model tie: program")
                    continue
                if rk == "err":
                    if kind == "ok":
                        res.violation("the conversion raises but the model produces a program", c2, impl=rp[:200], clause="model tie: program")
                    else:
                        res.count("programs_both_refuse")
                    continue
                if kind != "ok":
                    res.violation("the conversion succeeds but the model refuses", c2, model=mp, clause="model tie: program")
                    continue
                a, b = PT.canon(rp), PT.canon(mp)
                res.count("program_statements", len(a))
                if a != b:
                    diff = [(x, y) for x, y in zip(a, b) if x != y][:2] or [a[len(b):][:2], b[len(a):][:2]]
                    res.violation("declarations / uses of the real output differ from the model program", c2, impl=[d[0] for d in diff][:2], model=[d[1] for d in diff][:2],
                                  clause="model tie: program")
                    continue
                bad = PT.closed(rp)
                res.count("real_closed" if not bad else "real_not_closed")
                if (m_closed == "T") != (not bad):
                    res.violation("closure verdict of the model differs from the real text", c2, impl=bad[:3], model=m_closed, clause="model tie: program")
                if m_supported == "T":
                    res.count("supported_outputs")
                    if bad:
                        res.violation("a model symbol is used but not declared earlier in the same output (input meets the theorem's Supported predicate)",
                                      c2, impl=bad[:4], clause="every symbol declared before use")

        batch.add(op_c, onp)
    alphabet = list("abKpi0019") + ["(", ")", "*", "'", "::", "+", "-", "_", "/", "~", "++", "--", ")("]
    pool = sorted(names_seen) + ["".join(rng.choice(alphabet) for _ in range(rng.randint(1, 9))) for _ in range(100 if tier == "quick" else 1500)]
    for nm in pool:
        want = programmatic_name(nm)
        res.count("programmatic_names")

        def onn(ans, nm=nm, want=want):
            if ans is not None and ans != ["ok", want]:
                res.violation("programmatic_name differs from the model", {"kind": "progname", "name": nm}, impl=want, model=ans, clause="model tie: programmatic_name")

        batch.add(["progname", nm], onn)
    batch.run()
    shutil.rmtree(tmp, ignore_errors=True)
    return res.done()
