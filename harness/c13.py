"""C13: a decay descriptor string determines the decay tree it was made from."""
from __future__ import annotations

import contextlib

import itertools
from collections import Counter

from . import gen
from .c11 import build_chain, chain_wire
from .common import Batch, Result, canon_json, rng_for


def split_top(s: str):
    """split at blanks that are at parenthesis depth 0"""
    out, cur, depth = [], [], 0
    for c in s:
        if c == "(":
            depth += 1
        elif c == ")":
            depth -= 1
        if c == " " and depth == 0:
            if cur:
                out.append("".join(cur))
            cur = []
        else:
            cur.append(c)
    if cur:
        out.append("".join(cur))
    return out


def read_descriptor(s: str):
    """bracket reader for the default patterns: 'M -> a (B -> c d) e'  ->  [M, sorted items]"""
    toks = split_top(s)
    if len(toks) < 2 or toks[1] != "->":
        raise ValueError(f"not a descriptor: {s!r}")
    items = []
    for t in toks[2:]:
        inner = t[1:-1] if t.startswith("(") and t.endswith(")") else None
        if inner is not None:
            it = split_top(inner)
            if len(it) >= 2 and it[1] == "->":
                items.append(read_descriptor(inner))
                continue
        items.append(t)
    return [toks[0], sorted(items, key=canon_json)]


def tree_of(dc, name=None):
    name = name or dc.mother
    items = []
    for d in dc.decays[name].daughters.to_list():
        items.append(tree_of(dc, d) if d in dc.decays else d)
    return [name, sorted(items, key=canon_json)]


PATTERNS = [
    ("{mother} -> {daughters}", "({mother} -> {daughters})"),
    ("{mother} --> {daughters}", "[{mother} --> {daughters}]"),
    ("{mother} => {daughters}", "{mother} (=> {daughters})"),
    ("{daughters} <- {mother}", "<{daughters} <- {mother}>"),
    ("{mother}:{daughters}|{mother}", "{{{mother}:{daughters}}}"),
    ("TOP {mother} {daughters}", "SUB {mother} {daughters}"),
    # blanks that belong to the pattern: just inside brackets, at either end, a line break
    ("[ {mother} -> {daughters} ]CC", "( {mother} -> {daughters} )"),
    ("  {mother} => {daughters}  ", "{{ {mother} => {daughters} }}"),
    ("{mother} ->\n    {daughters}", "< {mother} -> {daughters} >"),
]


def run(ctx):
    from decaylanguage import DecayChain, DecayMode
    from decaylanguage.utils import DescriptorFormat

    tier, seed = ctx["tier"], ctx["seed"]
    rng = rng_for(seed, "c13")
    res = Result("single acyclic chains (exhaustive small shapes + random) over names with parentheses, quotes and signs, "
                 "repeated decaying daughters; a family of pattern pairs; non-trivial = distinct chain with a nested sub-decay")
    batch = Batch(ctx["driver_ok"])
    n_random = 400 if tier == "quick" else 8000
    max_exh = 3 if tier == "quick" else 4

    calls = [0]

    def one(dc, label):
        case = {"kind": "descriptor", "label": label, "mother": dc.mother,
                "decays": [[k, v.daughters.to_list()] for k, v in dc.decays.items()]}
        want_tree = tree_of(dc)     # the tree the chain was made from, taken before any call on it
        remember_me = calls[0] % 4 == 1
        calls[0] += 1
        if calls[0] % 3 == 0:
            # read-only calls made before rendering (visible_bf, flatten) leave the chain, hence its descriptor, as it was
            case["before"] = ["visible_bf", "flatten"]
            try:
                _ = dc.visible_bf
                dc.flatten()
            except Exception:
                pass
        try:
            s = dc.to_string()
        except Exception as e:
            res.violation(f"to_string raised {type(e).__name__}: {e}", case, clause="descriptor")
            res.case()
            return
        try:
            got_tree = read_descriptor(s)
        except Exception as e:
            got_tree = f"unreadable: {e}"
        if remember_me:
            res.remember(case, lambda dc=dc: dc.to_string(), s)
        if calls[0] % 4 == 3:
            from particle.converters import EvtGenName2PDGIDBiMap
            try:
                alt = {}
                for k, v in dc.decays.items():
                    ids = [int(EvtGenName2PDGIDBiMap[d]) for d in v.daughters.to_list()]
                    alt[k] = DecayMode.from_pdgids(v.bf, tuple(ids) if calls[0] % 8 == 3 else ids)
            except Exception:
                alt = None
            if alt is not None:
                res.count("chains_from_pdgids")
                s_ids = DecayChain(dc.mother, alt).to_string()
                if s_ids != s:
                    res.violation("the same chain built from PDG IDs has another descriptor", case, impl=s_ids, model=s, clause="read back")
        if got_tree != want_tree:
            res.violation("descriptor read back by matching brackets is not the tree", case, impl={"string": s, "read": got_tree}, model=want_tree, clause="read back")
        nested = any(not isinstance(i, str) and any(not isinstance(j, str) for j in i[1]) for i in want_tree[1])
        nt = canon_json(case["decays"] + [dc.mother]) if nested else None
        res.case(nt, {"descriptor": s} if nt else None)
        res.count("descriptors")
        # canonical: any order of daughters and of the mapping gives the same string
        items = list(dc.decays.items())
        rng.shuffle(items)
        dc2 = DecayChain(dc.mother, {k: DecayMode(v.bf, rng.sample(list(v.daughters), len(v.daughters)), **v.metadata) for k, v in items})
        if dc2.to_string() != s:
            res.violation("descriptor depends on the order of daughters / sub-decays", case, impl=[s, dc2.to_string()], clause="canonical")
        # patterns
        p1, p2 = rng.choice(PATTERNS)
        with DescriptorFormat(p1, p2):
            sp = dc.to_string()
        after = dc.to_string()
        if after != s:
            res.violation("format leaked out of the context", case, impl=[s, after], clause="patterns")
        if calls[0] % 5 == 2:
            # the documented class variable written directly, its two entries in either order: the entry named decay_pattern is
            # the top-level pattern and the one named sub_decay_pattern the nested one, wherever they sit in the dictionary
            saved = DescriptorFormat.config
            try:
                DescriptorFormat.config = {"sub_decay_pattern": p2, "decay_pattern": p1} if calls[0] % 2 == 0 else {"decay_pattern": p1, "sub_decay_pattern": p2}
                direct = dc.to_string()
            finally:
                DescriptorFormat.config = saved
            res.count("config_written_directly")
            if direct != sp:
                res.violation("patterns written directly into DescriptorFormat.config are not used as named (first pattern at the top level, second at nested levels)",
                              dict(case, patterns=[p1, p2]), impl=direct, model=sp, clause="patterns")
        if calls[0] % 5 == 3:
            # the patterns requested through a subclass of DescriptorFormat (a project's own preset class): the same request,
            # the same rendering - as a context and through set_config
            Preset = type("Preset", (DescriptorFormat,), {"__doc__": "patterns of a project"})
            try:
                with Preset(p1, p2):
                    via_sub = dc.to_string()
                Preset.set_config(p1, p2)
                via_sub_set = dc.to_string()
            except Exception as e:
                via_sub = via_sub_set = f"{type(e).__name__}: {e}"
            finally:
                DescriptorFormat.set_config(PATTERNS[0][0], PATTERNS[0][1])
            res.count("patterns_through_a_subclass")
            if via_sub != sp or via_sub_set != sp or dc.to_string() != s:
                res.violation("patterns requested through a subclass of DescriptorFormat are not the ones the tree is rendered with",
                              dict(case, patterns=[p1, p2]), impl=[via_sub, via_sub_set, dc.to_string()], model=[sp, sp, s], clause="patterns")
        if calls[0] % 5 == 4:
            # a request for new patterns that is refused (one of the two patterns lacks a wildcard or has an unknown one) changes
            # nothing: afterwards the tree is rendered with the patterns that were in force before the request - the defaults
            # outside any block, the block's own patterns inside one
            badp = rng.choice(["[{mother} --> {daughter}]", "({mother} -> {daughters} {extra})", "no wildcards at all", "{mother}", "({daughters})", ""])
            first_bad = calls[0] % 10 == 9
            req = (badp, p2) if first_bad else (p1, badp)
            for how in ("with", "set_config"):
                for inside_block in (False, True):
                    ctx_mgr = DescriptorFormat(p1, p2) if inside_block else contextlib.nullcontext()
                    with ctx_mgr:
                        try:
                            if how == "with":
                                with DescriptorFormat(*req):
                                    pass
                            else:
                                DescriptorFormat.set_config(*req)
                            outcome = "accepted"
                        except ValueError:
                            outcome = "ValueError"
                        rendered = dc.to_string()
                    after_all = dc.to_string()
                    if outcome == "accepted" and how == "set_config":
                        DescriptorFormat.set_config(PATTERNS[0][0], PATTERNS[0][1])
                    res.count("refused_pattern_requests")
                    hcase = dict(case, history=[f"{how}{req!r} -> {outcome}", "to_string()"], inside_block=[p1, p2] if inside_block else None)
                    if outcome != "ValueError":
                        # whether such a request is refused is C14's clause, not this property's: nothing to compare here
                        res.count("bad_pattern_accepted")
                        DescriptorFormat.config = {"decay_pattern": PATTERNS[0][0], "sub_decay_pattern": PATTERNS[0][1]}
                    elif rendered != (sp if inside_block else s) or after_all != s:
                        res.violation("after a refused request for new patterns the tree is not rendered with the patterns in force before it", hcase,
                                      impl=[rendered, after_all], model=[sp if inside_block else s, s], clause="patterns")
                        # put the defaults back so that the rest of the run is not measured against a damaged configuration
                        DescriptorFormat.config = {"decay_pattern": PATTERNS[0][0], "sub_decay_pattern": PATTERNS[0][1]}
        d = dc.to_dict()

        def on(ans, s=s, case=case):
            if ans is not None and (ans[0] != "ok" or list(ans[1]) != [s]):
                res.violation("to_string differs from the model", case, impl=s, model=ans, clause="model tie: default patterns")

        batch.add(["expand", PATTERNS[0][0], PATTERNS[0][1], [], chain_wire(d)], on)

        def onp(ans, sp=sp, case=case, p1=p1, p2=p2):
            if ans is not None and (ans[0] != "ok" or list(ans[1]) != [sp]):
                res.violation("to_string with user patterns differs from the model (first pattern at top level, second at nested levels)",
                              dict(case, patterns=[p1, p2]), impl=sp, model=ans, clause="patterns")

        batch.add(["expand", p1, p2, [], chain_wire(d)], onp)

    dnames = ["D*(2010)+", "K_1(1270)+", "f'_0", "Upsilon(4S)", "anti-K*0"]
    snames = ["gamma", "pi+", "a_1(1260)-"]
    for spec in gen.all_small_tree_specs(max_exh, dnames, snames, max_mult=2):
        one(build_chain(spec, rng, with_meta=False), "exhaustive")
    for i in range(n_random):
        n_dec = rng.choice([1, 2, 3, 3, 4, 5, 6, 8])
        names = [n for n in gen.name_pool(rng, n_dec + 6, synthetic=0.0)
                 if n.count("(") == n.count(")") and "->" not in n and not (n.startswith("(") and n.endswith(")"))]
        if len(names) < n_dec + 2:
            continue
        spec = gen.rand_tree_spec(rng, n_dec, names=names, max_mult=3)
        one(build_chain(spec, rng, with_meta=False), "random")
    batch.run()
    return res.done()
