"""C02: layout, comments, line ends and file packaging never change what is parsed."""
from __future__ import annotations

import glob
import os
import pathlib
import shutil
import tempfile

from . import gen
from .common import REPO, Batch, Result, canon_json, conv_tree, dec, err_class, load_corpus, raw_parse, render_doc, rng_for
from .decsnap import full_snapshot, impl_queries, impl_tables_public


def light_snapshot(p):
    return {"n": p.number_of_decays, "mothers": list(p.list_decay_mother_names()), "tables": impl_tables_public(p), "queries": impl_queries(p)}


def acyclic(doc):
    """no particle reaches itself through Decay blocks (chain building would not end)"""
    edges = {}
    for s in doc:
        if s[0] == "decay" and s[1] not in edges:
            edges[s[1]] = {d for l in s[2] for d in l[1]}
    for s in doc:
        if s[0] == "copydecay" and s[2] in edges and s[1] not in edges:
            edges[s[1]] = set(edges[s[2]])
    state = {}

    def visit(n):
        if state.get(n) == 1:
            return False
        if state.get(n) == 2:
            return True
        state[n] = 1
        for d in edges.get(n, ()):
            if not visit(d):
                return False
        state[n] = 2
        return True

    return all(visit(n) for n in list(edges))


def run(ctx):
    from decaylanguage import DecFileParser

    tier, seed = ctx["tier"], ctx["seed"]
    rng = rng_for(seed, "c02")
    res = Result("base texts (generated documents, every .dec under tests/data; thorough: the two master files) re-rendered under "
                 "random compositions of the listed edits (comments, blank lines, indentation, spacing, LF/CRLF, wrapped / comma "
                 "separated parameter lists, repeated semicolons, End line) and packaged as string, one file, or several files "
                 "(with/without BOM, each possibly closed by End); all public queries compared; non-trivial = distinct (base, variant) pair "
                 "with >= 2 statements")
    batch = Batch(ctx["driver_ok"])

    def tie_reader(text, case):
        """the Lean reader against Lark on the same text"""
        try:
            want = ["ok", conv_tree(raw_parse(text))]
        except Exception as e:
            want = ["err"]

        def on(ans, want=want, case=case):
            if ans is None:
                return
            got = ["ok", _unwire(ans[1])] if ans[0] == "ok" else ["err"]
            if got != want:
                res.violation("the reader model and the real parser read a text differently", dict(case, text=text[:1500]),
                              impl=want if want[0] == "err" else want[1][:3], model=got if got[0] == "err" else got[1][:3], clause="model tie: reader",
                              tie_only=True)

        batch.add(["dec_read", [], text], on)

    def tie_files(paths, concatenated, case):
        raw = [open(x, "rb").read().decode("utf-8") for x in paths]

        def on(ans, concatenated=concatenated, case=case):
            if ans is not None and (ans[0] != "ok" or ans[1] != concatenated):
                res.violation("the text assembled from the files differs from the model of the constructor", dict(case, raw=[r[:300] for r in raw]),
                              impl=concatenated[:600], model=str(ans[1])[:600], clause="model tie: file concatenation")

        batch.add(["concat_files", raw], on)

    n_docs = 100 if tier == "quick" else 1200
    n_layouts = 3 if tier == "quick" else 5
    n_thm_layouts = 2 if tier == "quick" else 4
    tmp = tempfile.mkdtemp(prefix="verif_c02_")

    def snap_of(make, heavy):
        p = make()
        p.parse()
        return full_snapshot(p, chain_budget=300) if heavy else light_snapshot(p)

    def write_files(doc, lay, rng, label):
        """split at statement boundaries over 1..4 files; returns paths"""
        k = rng.randint(1, min(4, max(1, len(doc))))
        cuts = sorted(rng.sample(range(1, len(doc)), k - 1)) if len(doc) > 1 and k > 1 else []
        parts = [doc[a:b] for a, b in zip([0] + cuts, cuts + [len(doc)])]
        paths = []
        names = rng.sample(["main", "analysis", "Z_user", "a_common", "f10", "f2", "B", "b", "DECAY", "my", "part-1", "part_0"], len(parts))
        for i, part in enumerate(parts):
            text = lay.render(part, end_line=rng.random() < 0.5)
            if rng.random() < 0.3:
                text = text.rstrip("\r\n \t")           # a file need not end with a line end
                if text.endswith(tuple(gen.COMMENTS)) and False:
                    pass
            # file names in no particular order (the order of the arguments is the order of the text, whatever the names are:
            # `main.dec` before `analysis.dec`, `f2` before `f10`, `z/common.dec` before `a/user.dec`), as strings or paths
            sub = os.path.join(tmp, label, rng.choice(["", "", "z", "a", "Sub dir"]))
            os.makedirs(sub, exist_ok=True)
            path = os.path.join(sub, names[i] + rng.choice([".dec", ".dec", ".DEC", ".txt", ""]))
            bom = rng.random() < 0.4
            with open(path, "w", encoding="utf-8-sig" if bom else "utf-8", newline="") as f:
                f.write(text)
            paths.append(path if rng.random() < 0.7 else pathlib.Path(path))
        if len(paths) > 1:
            res.count("file_names_ascending" if [str(x) for x in paths] == sorted(str(x) for x in paths) else "file_names_not_ascending")
        return paths

    def one(doc, label, heavy=True, base_text=None):
        base_text = base_text if base_text is not None else render_doc(doc)
        case0 = {"kind": "layout", "label": label, "base": base_text if len(base_text) < 3000 else base_text[:300] + "..."}
        try:
            base = snap_of(lambda: DecFileParser.from_string(base_text), heavy)
        except Exception as e:
            res.skipped += 1
            return
        # the layouts of the round-trip theorem (C02_read_layout_decay): the model renders the document under a layout drawn
        # from a seed; where the theorem's hypotheses hold the real parser must read that very text as the document
        if len(base_text) < 20000:
            try:
                base_wire = conv_tree(raw_parse(base_text))
            except Exception:
                base_wire = None
            for j in range(n_thm_layouts if base_wire is not None else 0):
                lseed = rng.randrange(1 << 48)

                def on_layout(ans, base_wire=base_wire, base=base, lseed=lseed, case0=case0, heavy=heavy):
                    if ans is None:
                        return
                    if ans[0] != "ok":
                        res.violation("the model cannot render the document", dict(case0, layout_seed=lseed), model=ans, clause="model tie: layout theorem")
                        return
                    text, gg, gl, gs = ans[1]
                    res.count("theorem_layouts")
                    if not (gg == "T" and gl == "T"):
                        res.violation("a generated layout / the grammar does not meet the theorem's hypotheses", dict(case0, layout_seed=lseed, flags=[gg, gl]),
                                      clause="model tie: layout theorem (hypotheses)")
                        return
                    if gs != "T":
                        res.count("theorem_layouts_doc_outside_hypotheses")
                        return
                    res.count("theorem_layouts_in_hypotheses")
                    case = dict(case0, variant=text if len(text) < 3000 else text[:400] + "...", packaging="string, layout of the theorem", layout_seed=lseed)
                    try:
                        w = conv_tree(raw_parse(text))
                        got = snap_of(lambda: DecFileParser.from_string(text), heavy)
                    except Exception as e:
                        res.violation(f"a text the round-trip theorem covers is rejected: {type(e).__name__}: {str(e)[:120]}", case, clause="rewritten input must parse")
                        return
                    if w != base_wire:
                        res.violation("a text the round-trip theorem covers is not read as the document it renders", case, impl=w[:3], model=base_wire[:3],
                                      clause="model tie: layout theorem")
                    elif canon_json(got) != canon_json(base):
                        diff = [k for k in base if canon_json(base[k]) != canon_json(got.get(k))]
                        res.violation("answers differ between two inputs that differ only in layout / packaging", case,
                                      impl={k: got.get(k) for k in diff[:2]}, model={k: base[k] for k in diff[:2]}, clause="identical answers: " + ",".join(diff))
                    res.case(canon_json([case0["base"], text]) if len(base_wire) >= 2 else None)

                batch.add(["render_layout", [], lseed, base_wire], on_layout)
        for j in range(n_layouts):
            lay = gen.Layout(rng)
            mode = rng.choice(["string", "string", "files", "files", "one-file"])
            try:
                if mode == "string":
                    text = lay.render(doc)
                    case = dict(case0, variant=text if len(text) < 3000 else text[:400] + "...", packaging="string")
                    got = snap_of(lambda: DecFileParser.from_string(text), heavy)
                    tie_reader(text, {"kind": "reader", "label": label})
                else:
                    paths = write_files(doc if mode == "files" else doc, lay, rng, f"{label}_{res.evaluations}_{j}") if mode == "files" else None
                    if mode == "one-file":
                        text = lay.render(doc)
                        path = os.path.join(tmp, f"{label}_{res.evaluations}_{j}.dec")
                        with open(path, "w", encoding="utf-8-sig" if rng.random() < 0.4 else "utf-8", newline="") as f:
                            f.write(text)
                        paths = [path]
                    case = dict(case0, packaging=mode, files=[open(x, "rb").read().decode("utf-8", "replace")[:1500] for x in paths],
                                file_names=[os.path.relpath(str(x), tmp) for x in paths])
                    q = DecFileParser(*paths)
                    tie_files(paths, q._dec_file, {"kind": "files", "label": label})
                    if len(q._dec_file) < 200000:
                        tie_reader(q._dec_file, {"kind": "reader", "label": label + ":files"})
                    got = snap_of(lambda: DecFileParser(*paths), heavy)
            except Exception as e:
                fk = None
                res.violation(f"a rewritten input is rejected: {type(e).__name__}: {str(e)[:120]}", case, clause="rewritten input must parse", finding_key=fk)
                res.case()
                continue
            if canon_json(got) != canon_json(base):
                diff = [k for k in base if canon_json(base[k]) != canon_json(got.get(k))]
                res.violation("answers differ between two inputs that differ only in layout / packaging", case,
                              impl={k: got.get(k) for k in diff[:2]}, model={k: base[k] for k in diff[:2]}, clause="identical answers: " + ",".join(diff))
            res.case(canon_json([case0["base"], case.get("variant") or case.get("files")]) if len(doc) >= 2 else None,
                     {"packaging": case["packaging"], "variant": (case.get("variant") or case.get("files"))} if len(res.samples) < 3 and len(doc) >= 2 else None)
            res.count(mode)
            res.count("crlf" if lay.crlf else "lf")

    rep_n = [0]

    def repeated_file(doc, label):
        """a file named twice with another file in between (a common part read again after a user file): the text is that of the
        three files in order - the same as when the third argument is a copy of the first file under another name; the second
        mention may spell the path differently (./, relative, Path, a symbolic link)"""
        if len(doc) < 2:
            return
        rep_n[0] += 1
        d = os.path.join(tmp, f"rep{rep_n[0]}")
        os.makedirs(d, exist_ok=True)
        k = rng.randint(1, len(doc) - 1)
        lay = gen.Layout(rng)
        fa, fb, fcopy = os.path.join(d, "common.dec"), os.path.join(d, "user.dec"), os.path.join(d, "copy_of_common.dec")
        ta, tb = lay.render(doc[:k], end_line=rng.random() < 0.5), lay.render(doc[k:], end_line=rng.random() < 0.5)
        for pth, t in ((fa, ta), (fb, tb), (fcopy, ta)):
            with open(pth, "w", encoding="utf-8", newline="") as f:
                f.write(t)
        how = rng.choice(["same", "dot", "relative", "Path", "symlink"])
        again = fa
        if how == "dot":
            again = os.path.join(d, ".", "common.dec")
        elif how == "relative":
            again = os.path.relpath(fa)
        elif how == "Path":
            again = pathlib.Path(fa)
        elif how == "symlink":
            again = os.path.join(d, "link_to_common.dec")
            try:
                os.symlink(fa, again)
            except OSError:
                again = fa
        case = {"kind": "files", "label": label, "packaging": "a file named twice with another in between", "second_mention": how,
                "files": [ta[:1200], tb[:1200]]}

        def snap(paths):
            try:
                q = DecFileParser(*paths)
                text = q._dec_file
                q.parse()
                return [text, light_snapshot(q)]
            except Exception as e:
                return "error: " + err_class(e)

        got, want = snap([fa, fb, again]), snap([fa, fb, fcopy])
        res.case()
        res.count("file_named_twice")
        if canon_json(got) != canon_json(want):
            res.violation("a file named twice (with another file in between) is not read as the three files in order", case,
                          impl=got if isinstance(got, str) else got[0][:600], model=want if isinstance(want, str) else want[0][:600],
                          clause="identical answers: files passed in order")
        if not isinstance(got, str):
            tie_files([fa, fb, fa], got[0], case)

    for fname, c in load_corpus("C02"):
        one(c["doc"], "corpus")
    # fixed findings F3 (byte order mark) and F13 (a wrapped line starting with a word like 'Endpoint'), deterministically
    reg = os.path.join(tmp, "reg")
    os.makedirs(reg, exist_ok=True)
    with open(os.path.join(reg, "a.dec"), "w", encoding="utf-8-sig") as f:
        f.write("Decay A\n1.0 b c PHSP;\nEnddecay\nEnd\n")
    with open(os.path.join(reg, "b.dec"), "w", encoding="utf-8") as f:
        f.write("Decay B\n1.0 b c HELAMP 1.0\nEndpoint 2.0;\nEnddecay\n  End # closing\n")
    with open(os.path.join(reg, "c.dec"), "w", encoding="utf-8") as f:
        f.write("# last file\nDefine dm 0.5\nDecay C\n1.0 b c VSS_BMIX dm;\nEnddecay")
    base_text = "Decay A\n1.0 b c PHSP;\nEnddecay\nDecay B\n1.0 b c HELAMP 1.0 Endpoint 2.0;\nEnddecay\nDefine dm 0.5\nDecay C\n1.0 b c VSS_BMIX dm;\nEnddecay\n"
    case = {"kind": "layout", "label": "regression F3/F13", "base": base_text, "packaging": "three files: BOM, wrapped 'Endpoint' line, indented End, no final line end"}
    try:
        a = snap_of(lambda: DecFileParser.from_string(base_text), True)
        b = snap_of(lambda: DecFileParser(os.path.join(reg, "a.dec"), os.path.join(reg, "b.dec"), os.path.join(reg, "c.dec")), True)
        if canon_json(a) != canon_json(b):
            res.violation("answers differ between string input and the same statements packaged in files", case, clause="identical answers",
                          impl=b.get("tables"), model=a.get("tables"))
    except Exception as e:
        res.violation(f"a rewritten input is rejected: {type(e).__name__}: {str(e)[:120]}", case, clause="rewritten input must parse")
    res.case(canon_json(case))
    for i in range(n_docs):
        doc, info = gen.gen_doc(rng, cc=rng.random() < 0.5, copies=rng.random() < 0.4)
        one(doc, f"g{i}", heavy=acyclic(doc))
        if i % 3 == 0:
            repeated_file(doc, f"g{i}")
    files = sorted(glob.glob(REPO + "/tests/data/*.dec"))
    files += sorted(glob.glob(REPO + "/tests/data/models/*.dec")) if tier == "thorough" else sorted(glob.glob(REPO + "/tests/data/models/*.dec"))[seed % 9::9]
    if tier == "thorough":
        files += [REPO + "/src/decaylanguage/data/DECAY_LHCB.DEC", REPO + "/src/decaylanguage/data/DECAY_BELLE2.DEC"]
    for f in files:
        try:
            text = open(f, encoding="utf-8").read() + "\n"
            doc = conv_tree(raw_parse(text))
        except Exception:
            res.skipped += 1
            continue
        big = len(text) > 100000
        if big:
            saved = n_layouts
        one(doc, os.path.basename(f).replace(".", "_"), heavy=not big and acyclic(doc), base_text=text)
    # malformed stream: validates the reader model on texts outside the well-formed domain (both must reject, or read alike)
    n_mal = 300 if tier == "quick" else 6000
    soup = ["Decay", "Enddecay", "End", "Alias", "Define", "CDecay", "ChargeConj", "ModelAlias", "CopyDecay", "Particle", "PHOTOS", "PHSP", "VSS",
            "HELAMP", "1.0", "0.5", ".5", "-3", "2E-4", "x", "K+", "pi-", "MyD0", ";", ";;", ",", "\n", "\n", "\r\n", "# c\n", " ", "\t", "yesPhotos",
            "JetSetPar", "PARJ(21)=0.5", "PythiaBothParam", "A:b=1", "=", ":", "LSFLAT", "IncludeBirthFactor", "yes", "SetLineshapePW", "3", "PHSPx", "1.0x", "Decayed"]
    for i in range(n_mal):
        if rng.random() < 0.5:
            doc, _ = gen.gen_doc(rng, n_blocks=rng.randint(0, 3))
            t = gen.Layout(rng).render(doc)
            k = rng.randrange(max(1, len(t)))
            r = rng.random()
            if r < 0.3:
                t = t[:k] + t[k + 1:]
            elif r < 0.6:
                t = t[:k] + rng.choice(soup) + t[k:]
            elif r < 0.8:
                t = t[:k] + rng.choice(" \t\n;#,") + t[k:]
            else:
                j = rng.randrange(max(1, len(t)))
                a, b = sorted((k, j))
                t = t[:a] + t[b:]
        else:
            t = "".join(rng.choice(soup) + rng.choice([" ", " ", "", "\n"]) for _ in range(rng.randint(1, 14)))
        tie_reader(t, {"kind": "reader", "label": "malformed"})
        res.count("malformed_texts")
    # exhaustive part of the reader tie: every sequence of up to N tokens of a small alphabet in eleven contexts, read by Lark
    # and by the Lean reader (quick: one slice in eight chosen by the seed; thorough: all of them, one token longer)
    from . import decexh

    if ctx["driver_ok"]:
        if tier == "quick":
            total, acc, bad, first = decexh.run(3, (seed % 8, 8), verbose=False)
        else:
            total, acc, bad, first = decexh.run(4, (0, 1), verbose=False)
        res.distribution["exhaustive_reader_texts"] = total
        res.distribution["exhaustive_reader_texts_accepted"] = acc
        res.evaluations += total
        for t, e, g in first[:10]:
            res.violation("the reader model and the real parser read a text differently", {"kind": "reader", "label": "exhaustive", "text": t},
                          impl=e if e[0] == "err" else e[1][:3], model=g if g[0] == "err" else g[1][:3], clause="model tie: reader", tie_only=True)
    batch.run()
    shutil.rmtree(tmp, ignore_errors=True)
    return res.done()


def _unwire(x):
    """decoded model statements -> the wire form conv_tree produces (None / True / False instead of N / T / F)"""
    out = []
    for st in x:
        k = st[0]
        if k == "decay":
            out.append(["decay", st[1], [[l[0], list(l[1]), l[2] == "T", _unwire_model(l[3])] for l in st[2]]])
        elif k == "model_alias":
            out.append(["model_alias", st[1], _unwire_model(st[2])])
        elif k == "particle_def":
            out.append(["particle_def", st[1], st[2], None if st[3] == "N" else [st[3][0]]])
        elif k in ("inc_factor",):
            out.append([k, st[1], st[2], st[3] == "T"])
        elif k == "global_photos":
            out.append([k, st[1] == "T"])
        elif k == "pythia":
            out.append([k, st[1], st[2], st[3], list(st[4])])
        else:
            out.append(list(st))
    return out


def _unwire_model(m):
    if m[0] == "alias":
        return ["alias", m[1]]
    return ["named", m[1], None if m[2] == "N" else [list(p) for p in m[2]]]
