"""C20: conversion output depends only on the input file."""
from __future__ import annotations

import json
import os
import shutil
import subprocess
import sys
import tempfile
from concurrent.futures import ThreadPoolExecutor

from . import ampcommon as A
from .common import VERIF, Result, canon_json, rng_for

WORKER = os.path.join(VERIF, "harness", "ampworker.py")
KINDS = ["cpp", "py", "read:AmplitudeChain", "read:GooFitChain", "read:GooFitPyChain"]


def worker(calls, hashseed=None, cache=True, timeout=900, extra_env=None):
    env = dict(os.environ)
    if extra_env:
        env.update(extra_env)
    if hashseed is not None:
        env["PYTHONHASHSEED"] = str(hashseed)
    p = subprocess.run([sys.executable, WORKER, json.dumps({"calls": calls, "cache": cache})], capture_output=True, text=True, env=env, timeout=timeout)
    k = p.stdout.rfind("@@RESULT@@")
    if p.returncode != 0 or k < 0:
        return [["err", "worker failed: " + (p.stderr or p.stdout)[-300:]]] * len(calls)
    return json.loads(p.stdout[k + len("@@RESULT@@"):])


def canon_text(t: str):
    """timestamp dropped; the part before the amplitude lines as a sorted multiset of STATEMENTS (mutually independent
    declarations may come in any order, but a declaration spanning several lines - an array with its entries - is one unit),
    the amplitude part exactly"""
    from .progtie import cut_cpp, cut_py

    lines = [l for l in t.split("\n") if not l.startswith("Generated on")]
    for marker, py in (("    // Lines", False), ("# Lines", True)):
        if marker in lines:
            k = lines.index(marker)
            head = "\n".join(lines[:k])
            try:
                units = (cut_py if py else cut_cpp)(head)
            except Exception:
                units = lines[:k]
            comments = [l for l in lines[:k] if l.strip().startswith(("//", "#")) or l.strip().startswith("/*")]
            # the summary block at the top (a block comment / a string literal): its groups come in the order of a set, so it is
            # compared as a multiset of LINES; what a line says must not depend on the history or the hash seed
            summary, inside = [], False
            for l in lines[:k]:
                s = l.strip()
                if not inside and (s.startswith("/*") or s.startswith("'''") or s.startswith('"""')):
                    inside = True
                    continue
                if inside and (s.endswith("*/") or s.startswith("'''") or s.startswith('"""')):
                    break
                if inside and s:
                    summary.append(l.rstrip())
            return [sorted(units) + sorted(comments) + ["--summary--"] + sorted(summary), lines[k:]]
    return [sorted(lines), []]


def canon_printed(r):
    """a printing conversion: what went to stdout, exactly (timestamp aside), and what was returned"""
    if r[0] != "ok":
        return [r[0], str(r[1]).split(":")[0]]
    return ["ok", sorted(l for l in r[1].split("\n") if not l.startswith("Generated on")), r[2] if len(r) > 2 else None]


def canon_result(kind, r):
    if r[0] != "ok":
        # a refusal is compared by its class: WHICH of several unsupported lines is named first is not an output line
        return [r[0], str(r[1]).split(":")[0]]
    if kind in ("cpp", "py"):
        return ["ok", canon_text(r[1])]
    return ["ok", r[1]]


def exact_text(t):
    return [l for l in t.split("\n") if not l.startswith("Generated on")]


def _supported(tree):
    """top lines of the general generator whose spin structure the converters support: cascades through a partial line"""
    ds = tree[4]
    return len(ds) == 2 and not ds[0][4] and ds[0][1] in A.CASCADE


def run(ctx):
    tier, seed = ctx["tier"], ctx["seed"]
    rng = rng_for(seed, "c20")
    res = Result("sequences of 1..4 read / convert calls over a pool of option files with different resonance content, with and "
                 "without the cartesian option, across the three reader classes and both converters, each call compared with the same "
                 "call in a fresh interpreter; a range of PYTHONHASHSEED values; non-trivial = distinct history of >= 2 calls")
    tmp = tempfile.mkdtemp(prefix="verif_c20_")
    pool = []
    n_pool = 5 if tier == "quick" else 8
    for i in range(n_pool):
        doc, ev = A.gen_emit_doc(rng, families=False)
        # some files with partial lines sharing names, so that expansions could leak between reads
        if i % 2 == 0:
            doc = [["event_type", ["D0", "K-", "pi+", "pi+", "pi-"]]] + [st for st in doc if st[0] == "line" and ev[1:] == ["K-", "pi+", "pi+", "pi-"]]
            extra, _ = A.gen_amp_doc(rng, n_lines=3, partial=True, cartesian=None, params=False, min_alts=1)
            doc += [st for st in extra if st[0] == "line" and st[1][1] != "D0" or (st[0] == "line" and _supported(st[1]))]
            # always: a partial line named K(1)(1270)bar- with file-specific separately written decays
            doc.append(["line", ["D", "D0", None, None, [["D", "K(1)(1270)bar-", None, None, []], ["D", "pi+", None, None, []]]]] + A.coupling(rng))
            for r2, b in rng.sample(A.CASCADE["K(1)(1270)bar-"], rng.randint(1, 3)):
                wave = rng.choice([None, "D"]) if r2 in A.RES_V else None      # the D wave is supported for A -> V P only
                doc.append(["line", ["D", "K(1)(1270)bar-", wave, rng.choice([None, "GSpline.EFF"]), [A.two_body(rng, r2), ["D", b, None, None, []]]]] + A.coupling(rng))
        doc += A.required_families(doc, rng)
        doc = [st for st in doc if st[0] != "fcs"]
        if i % 3 == 1:
            doc.insert(1, ["fcs", "1"])
        elif i % 3 == 2:
            doc.insert(1, ["fcs", "0"])
        path = os.path.join(tmp, f"p{i}.txt")
        open(path, "w").write(A.render_amp(doc))
        pool.append(path)
    # a file of isobar definitions only: an event type and separately written decays of resonances, no line for the mother itself
    # (it reads as no complete amplitude; its conversion is the header, the summary of the particles met and no amplitude)
    ddoc = [["event_type", ["D0", "K-", "pi+", "pi+", "pi-"]]]
    for r3 in rng.sample(list(A.CASCADE), 2):
        for r2, b in rng.sample(A.CASCADE[r3], min(2, len(A.CASCADE[r3]))):
            ddoc.append(["line", ["D", r3, None, None, [A.two_body(rng, r2), ["D", b, None, None, []]]]] + A.coupling(rng))
    ddoc.append(["line", A.two_body(rng, "KPi00")] + A.coupling(rng))
    ddoc += A.required_families(ddoc, rng)
    dpath = os.path.join(tmp, "definitions_only.txt")
    open(dpath, "w").write(A.render_amp(ddoc))
    pool.append(dpath)
    shipped = os.path.join(os.environ.get("VERIF_REPO", "/repo"), "models", "DtoKpipipi_v2.txt")
    if tier == "thorough":
        pool.append(shipped)
    # reference: every (kind, file) in its own fresh interpreter
    pairs = [(k, p) for p in pool for k in KINDS]
    with ThreadPoolExecutor(max_workers=12) as ex:
        refs = list(ex.map(lambda kp: worker([list(kp)])[0], pairs))
    ref = {kp: r for kp, r in zip(pairs, refs)}
    for kp, r in ref.items():
        res.case()
        res.count("fresh_references")
        if r[0] != "ok":
            res.violation(f"a call in a fresh interpreter failed: {r[1][:200]}", {"kind": "fresh", "call": kp[0], "file": open(kp[1]).read()[:1500]}, clause="reads / converts")
    # histories, each in one fresh interpreter
    n_hist = 16 if tier == "quick" else 150
    hists = []
    for i in range(n_hist):
        n = rng.choice([2, 2, 3, 3, 4])
        hists.append([[rng.choice(KINDS), rng.choice(pool)] for _ in range(n)])
    # targeted: cartesian file read by the base class first; same partial-line names across files and classes; A, B, A
    cart = [p for p in pool if "UseCartesian 1" in open(p).read()]
    plain = [p for p in pool if "UseCartesian" not in open(p).read()]
    if cart and plain:
        hists.append([["read:AmplitudeChain", cart[0]], ["read:GooFitChain", plain[0]], ["cpp", plain[0]], ["py", plain[0]]])
        hists.append([["cpp", cart[0]], ["py", plain[0]], ["read:GooFitPyChain", plain[0]]])
    hists.append([["cpp", pool[0]], ["cpp", pool[2 % len(pool)]], ["cpp", pool[0]], ["py", pool[0]]])
    # the definitions-only file after files with amplitudes, by the other converter / reader class and by the same one
    hists.append([["cpp", pool[0]], ["py", dpath]])
    hists.append([["py", pool[1 % len(pool)]], ["cpp", dpath], ["py", dpath]])
    hists.append([["read:GooFitChain", pool[0]], ["read:GooFitPyChain", dpath], ["py", dpath], ["cpp", dpath]])
    hists.append([["cpp", dpath], ["py", pool[0]], ["py", dpath]])
    # files sharing a spline resonance with file-specific constants, converted one after the other by the same converter
    spl = [p for p in pool if "GSpline" in open(p).read()]
    import itertools as _it
    for a, b in list(_it.permutations(spl, 2))[: (4 if tier == "quick" else 12)]:
        hists.append([["py", a], ["py", b]])
        hists.append([["cpp", a], ["cpp", b], ["py", b]])
    hists.append([["read:GooFitChain", pool[0]], ["read:GooFitPyChain", pool[2 % len(pool)]], ["py", pool[2 % len(pool)]]])
    with ThreadPoolExecutor(max_workers=12) as ex:
        outs = list(ex.map(worker, hists))
    for h, out in zip(hists, outs):
        case = {"kind": "history", "calls": [[k, os.path.basename(p)] for k, p in h], "files": {os.path.basename(p): open(p).read()[:1200] for _, p in h}}
        bad = None
        for step, ((k, p), r) in enumerate(zip(h, out)):
            want = ref[(k, p)]
            if canon_result(k, r) != canon_result(k, want):
                bad = (step, k, os.path.basename(p))
                a, b = canon_result(k, r), canon_result(k, want)
                detail = None
                if a[0] == "ok" and b[0] == "ok" and k in ("cpp", "py"):
                    detail = {"only_after_history": [x for x in a[1][0] + a[1][1] if x not in b[1][0] + b[1][1]][:6],
                              "only_in_fresh": [x for x in b[1][0] + b[1][1] if x not in a[1][0] + a[1][1]][:6]}
                else:
                    detail = {"after_history": str(a)[:400], "fresh": str(b)[:400]}
                res.violation(f"call {step} ({k} on {os.path.basename(p)}) gives a different result than in a fresh interpreter", case, impl=detail,
                              clause="independence from earlier reads / conversions", finding_key="F8")
                break
        res.case(canon_json(case["calls"]), case["calls"] if len(res.samples) < 4 else None)
        res.count("histories")
    # the printing form of the converters on a colour terminal (FORCE_COLOR): what is printed for a file does not depend on an
    # earlier conversion that returned its text
    col = {"FORCE_COLOR": "1"}
    pf = pool[1 % len(pool)]
    with ThreadPoolExecutor(max_workers=8) as ex:
        fresh_print = list(ex.map(lambda k: worker([[k, pf]], extra_env=col)[0], ["cpp_print", "py_print"]))
        after = list(ex.map(lambda h: worker(h, extra_env=col), [[["cpp", pool[0]], ["cpp_print", pf]], [["py", pf], ["py_print", pf]],
                                                                   [["py", pool[0]], ["cpp_print", pf]]]))
    for h, out, want in zip((["cpp", "cpp_print"], ["py", "py_print"], ["py", "cpp_print"]), after, (fresh_print[0], fresh_print[1], fresh_print[0])):
        res.case()
        res.count("printing_histories")
        if canon_printed(out[-1]) != canon_printed(want):
            a, b = canon_printed(out[-1]), canon_printed(want)
            diff = [x for x in (a[1] if a[0] == "ok" else []) if b[0] == "ok" and x not in b[1]][:3]
            res.violation("the text printed for a file differs after an earlier conversion in the same process", {"kind": "history", "calls": h, "env": col},
                          impl=diff or str(a)[:300], model=[x for x in (b[1] if b[0] == "ok" else []) if a[0] == "ok" and x not in a[1]][:3],
                          clause="independence from earlier reads / conversions")
    # a file that is refused (its separately written decays refer back to themselves), then files that are fine, in the same
    # process: a refused read leaves nothing behind
    cdoc = [["event_type", ["D0", "K-", "pi+", "pi+", "pi-"]],
            ["line", ["D", "D0", None, None, [["D", "K(1)(1270)bar-", None, None, []], ["D", "pi+", None, None, []]]]] + A.coupling(rng),
            ["line", ["D", "K(1)(1270)bar-", None, None, [A.two_body(rng, "rho(770)0", tag=False), ["D", "K(1)(1270)bar-", None, None, []]]]] + A.coupling(rng)]
    cpath = os.path.join(tmp, "refers_to_itself.txt")
    open(cpath, "w").write(A.render_amp(cdoc))
    good = pool[0]
    rhists = [[["cpp", cpath], ["cpp", good], ["py", good]], [["read:GooFitPyChain", cpath], ["py", good], ["read:AmplitudeChain", good]],
              [["py", cpath], ["read:GooFitChain", cpath], ["cpp", good]]]
    with ThreadPoolExecutor(max_workers=6) as ex:
        routs = list(ex.map(worker, rhists))
    for h, out in zip(rhists, routs):
        for step, ((k, pth), r) in enumerate(zip(h, out)):
            res.case()
            res.count("after_a_refused_read")
            if pth == cpath:
                if r[0] == "ok":
                    res.count("self_referring_file_accepted")
                continue
            if canon_result(k, r) != canon_result(k, ref[(k, pth)]):
                res.violation("a call gives a different result after a refused read of another file in the same process",
                              {"kind": "history", "calls": [[k2, os.path.basename(p2)] for k2, p2 in h], "step": step,
                               "files": {os.path.basename(cpath): open(cpath).read()[:600], os.path.basename(good): open(good).read()[:1200]}},
                              impl=str(canon_result(k, r))[:300], model=str(canon_result(k, ref[(k, pth)]))[:300], clause="independence from earlier reads / conversions")
    # a file that sets masses and widths of ordinary resonances through `<name>_mass` / `<name>_width` parameters, then files
    # that use the same resonances without such parameters: what a file says about a particle stays with that file
    mtext = open(pool[0]).read().rstrip("\n") + "\n" + "".join(
        f"{nm}_{q}   {fl_} {v} {e}\n" for nm, q, fl_, v, e in (("rho(770)0", "mass", 2, "770", "1"), ("rho(770)0", "width", 2, "150", "2"), ("K*(892)bar0", "mass", 0, "899.9", "0.5"),
                                                      ("K*(892)bar0", "width", 2, "47.3", "0.1"), ("K(1)(1270)bar-", "mass", 2, "1289.81", "1.75"), ("omega(782)0", "mass", 2, "780", "0.1")))
    mpath = os.path.join(tmp, "with_masses.txt")
    open(mpath, "w").write(mtext)
    mhists = [[["cpp", mpath], ["cpp", pool[0]], ["py", pool[0]]], [["read:GooFitPyChain", mpath], ["py", pool[1 % len(pool)]], ["cpp", pool[2 % len(pool)]]],
              [["py", mpath], ["read:AmplitudeChain", pool[0]], ["cpp", pool[3 % len(pool)]]]]
    with ThreadPoolExecutor(max_workers=6) as ex:
        mouts = list(ex.map(worker, mhists))
    for h, out in zip(mhists, mouts):
        for step, ((k, pth), r) in enumerate(zip(h, out)):
            if pth == mpath:
                continue
            res.case()
            res.count("after_a_file_with_mass_parameters")
            if canon_result(k, r) != canon_result(k, ref[(k, pth)]):
                a_, b_ = canon_result(k, r), canon_result(k, ref[(k, pth)])
                diff = [x for x in (a_[1][0] if a_[0] == "ok" and k in ("cpp", "py") else []) if b_[0] == "ok" and x not in b_[1][0]][:4]
                res.violation("a call gives a different result after a file that sets resonance masses / widths was read in the same process",
                              {"kind": "history", "calls": [[k2, os.path.basename(p2)] for k2, p2 in h], "step": step, "mass_lines": mtext.split("\n")[-7:-1]},
                              impl=diff or str(a_)[:300], clause="independence from earlier reads / conversions")
    # a conversion done step by step (read with a reader class, then ask that class for the introduction, the parameters and the
    # amplitude blocks), with reads of other files by the other reader classes in between: the output is that of the file read
    fa_, fb_, fc_ = pool[0], pool[1 % len(pool)], pool[2 % len(pool)]
    shists = []
    for cls_, others in (("GooFitChain", ["GooFitPyChain", "AmplitudeChain"]), ("GooFitPyChain", ["GooFitChain", "AmplitudeChain"]),
                         ("GooFitChain", ["AmplitudeChain"]), ("GooFitPyChain", ["GooFitChain"])):
        plain = [[f"read:{cls_}", fa_], [f"emit:{cls_}", fa_]]
        mixed = [[f"read:{cls_}", fa_]] + [[f"read:{o_}", f_] for o_, f_ in zip(others, (fb_, fc_))] + [[f"emit:{cls_}", fa_]]
        shists.append((plain, mixed))
    with ThreadPoolExecutor(max_workers=8) as ex:
        souts = list(ex.map(worker, [h for pair in shists for h in pair]))
    for k_, (plain, mixed) in enumerate(shists):
        a_, b_ = souts[2 * k_][-1], souts[2 * k_ + 1][-1]
        res.case()
        res.count("stepwise_conversions")
        ca = [a_[0], sorted(a_[1])] if a_[0] == "ok" else [a_[0], str(a_[1]).split(":")[0]]
        cb = [b_[0], sorted(b_[1])] if b_[0] == "ok" else [b_[0], str(b_[1]).split(":")[0]]
        if ca != cb:
            lost = [x for x in (a_[1] if a_[0] == "ok" else []) if b_[0] == "ok" and x not in b_[1]][:3]
            res.violation("the output lines a reader class gives for the file it read change when other reader classes read other files in between",
                          {"kind": "history", "calls": [[k2, os.path.basename(p2)] for k2, p2 in mixed], "files": {os.path.basename(p2): open(p2).read()[:800] for _, p2 in mixed}},
                          impl=lost or str(cb)[:300], model="the lines after " + str([[k2, os.path.basename(p2)] for k2, p2 in plain]),
                          clause="independence from earlier reads / conversions")
    # hash seeds: same canonical output whatever the seed; exactly the same text under the same seed
    seeds = list(range(4)) if tier == "quick" else list(range(32))
    # a file with three spline resonances and the K-matrix family: several multi-line declarations whose order could follow the seed
    hdoc = [["event_type", ["D0", "K-", "pi+", "pi+", "pi-"]]]
    for r3 in ("K(1)(1270)bar-", "K(1460)bar-"):
        r2, b = A.CASCADE[r3][0]
        hdoc.append(["line", ["D", "D0", None, None, [["D", r3, None, "GSpline.EFF", [A.two_body(rng, r2), ["D", b, None, None, []]]],
                                                      ["D", A.BACHELOR[r3], None, None, []]]]] + A.coupling(rng))
    hdoc.append(["line", ["D", "D0", None, None, [A.two_body(rng, "K*(892)bar0"), A.two_body(rng, "PiPi00")]]] + A.coupling(rng))
    # several amplitudes of one spin configuration whose top-level orbital momentum differs (written out as P and D, and left to
    # the default): whatever is said about the group must not depend on the order a set happens to have
    r2, b = A.CASCADE["K(1)(1270)bar-"][0]
    for top in ("D", "P", None, "D"):
        hdoc.append(["line", ["D", "D0", top, None, [["D", "K(1)(1270)bar-", None, None, [A.two_body(rng, r2), ["D", b, None, None, []]]],
                                                     ["D", "pi+", None, None, []]]]] + A.coupling(rng))
    hdoc += A.required_families(hdoc, rng)
    # a second file with several DIFFERENT unsupported spin structures (scalar before vector, bachelor before the sub-resonance,
    # tensor + vector): whatever the converters do with it - refuse it, or say what is missing - is the same under every hash seed
    udoc = [["event_type", ["D0", "K-", "pi+", "pi+", "pi-"]]]
    udoc.append(["line", ["D", "D0", None, None, [A.two_body(rng, "PiPi00", tag=False), A.two_body(rng, "K*(892)bar0", tag=False)]]] + A.coupling(rng))
    r2, b = A.CASCADE["K(1)(1270)bar-"][0]
    udoc.append(["line", ["D", "D0", None, None, [["D", "K(1)(1270)bar-", None, None, [["D", b, None, None, []], A.two_body(rng, r2, tag=False)]],
                                                  ["D", "pi+", None, None, []]]]] + A.coupling(rng))
    udoc.append(["line", ["D", "D0", None, None, [["D", "K(2)*(1430)bar-", None, None, [["D", "pi-", None, None, []], A.two_body(rng, "K*(892)bar0", tag=False)]],
                                                  ["D", "pi+", None, None, []]]]] + A.coupling(rng))
    udoc.append(["line", ["D", "D0", None, None, [A.two_body(rng, "K*(892)bar0", tag=False), A.two_body(rng, "rho(770)0", tag=False)]]] + A.coupling(rng))
    upath = os.path.join(tmp, "unsupported.txt")
    open(upath, "w").write(A.render_amp(udoc))
    hpath = os.path.join(tmp, "hashseed.txt")
    open(hpath, "w").write(A.render_amp(hdoc))
    target = [["cpp", hpath], ["py", hpath], ["cpp", pool[0]], ["py", pool[0]], ["cpp", upath], ["py", upath]]
    with ThreadPoolExecutor(max_workers=12) as ex:
        by_seed = list(ex.map(lambda s: worker(target, hashseed=s), seeds + [seeds[0]]))
    base = [canon_result(k, r) for (k, _), r in zip(target, by_seed[0])]
    for s, out in zip(seeds, by_seed):
        res.case()
        res.count("hash_seeds")
        got = [canon_result(k, r) for (k, _), r in zip(target, out)]
        if got != base:
            k = next((i for i, (x, y) in enumerate(zip(got, base)) if x != y), 0)
            res.violation("the output depends on the interpreter's hash seed", {"kind": "hashseed", "seed": s, "call": target[k][0], "file": open(target[k][1]).read()[:1500]}, clause="hash seed")
    a, b = by_seed[0], by_seed[-1]
    for (k, _), x, y in zip(target, a, b):
        if x[0] == "ok" and y[0] == "ok" and exact_text(x[1]) != exact_text(y[1]):
            res.violation("repeating the same calls in a fresh process (same hash seed) does not reproduce the text exactly", {"kind": "repeat", "call": k}, clause="exact reproducibility")
    shutil.rmtree(tmp, ignore_errors=True)
    return res.done()
