"""C06: every supported model name is recognised as itself; unknown models are rejected."""
from __future__ import annotations

import itertools

from . import gen
from .common import Batch, Result, canon_json, err_class, rng_for, parse_with

WORD = set("abcdefghijklmnopqrstuvwxyzABCDEFGHIJKLMNOPQRSTUVWXYZ0123456789_")


def spec_lex_model(names, text):
    """the specification of MODEL_NAME at the head of `text`: the listed name that is written there, i.e. a listed
    name that is a prefix of the text and is not followed by a word character; the longest such name"""
    best = None
    for n in names:
        if text.startswith(n) and not (len(text) > len(n) and text[len(n)] in WORD):
            if best is None or len(n) > len(best):
                best = n
    return best


def run(ctx):
    from decaylanguage import DecFileParser
    from decaylanguage.dec.enums import known_decay_models

    tier, seed = ctx["tier"], ctx["seed"]
    rng = rng_for(seed, "c06")
    res = Result("exhaustive: every published model name x {with/without PHOTOS} x {with/without parameters} x {a neighbouring label "
                 "extends it}; all prefix pairs of published names side by side; user-registered names over letters, digits, _ and - "
                 "(including prefixes/extensions of published names, registered in one or several calls); near-miss unknown words; "
                 "non-trivial = distinct decay line whose model name has a prefix/extension relation to another name or label in play")
    batch = Batch(ctx["driver_ok"])
    models = list(known_decay_models)

    def parse_line(line_text, extra=(), calls=1, reparse=0, prefix=""):
        text = f"{prefix}Decay B0\n{line_text}\nEnddecay\n"
        p = DecFileParser.from_string(text)
        if extra:
            ex = list(extra)
            if calls == 1:
                p.load_additional_decay_models(*ex)
            else:
                k = max(1, len(ex) // calls)
                for j in range(0, len(ex), k):
                    p.load_additional_decay_models(*ex[j:j + k])
        # the same parser object parsed again (the registered names are part of the parser, not of one parse)
        for i in range(reparse):
            parse_with(p, i % 2 == 1)
        p.parse()
        dm = p._find_decay_modes("B0")[0]
        d = p._decay_mode_details(dm, display_photos_keyword=True)
        return d

    def expect_model(line_text, name, photos, params, fs, extra=(), calls=1, label="", nontrivial=False, reparse=0, prefix=""):
        case = {"kind": "model-name", "label": label, "line": line_text, "registered": list(extra), "calls": calls, "parsed_before": reparse}
        if prefix:
            case["before_the_block"] = prefix
        try:
            d = parse_line(line_text, extra, calls, reparse, prefix)
            got = [d["model"], list(d["fs"]), d["model_params"]]
        except Exception as e:
            got = "error: " + err_class(e)
        want = [("PHOTOS " if photos else "") + name, list(fs), params]
        res.case(canon_json(case) if nontrivial else None, case if nontrivial and len(res.samples) < 3 else None)
        res.count(label)
        if got != want:
            res.violation("a supported model name is not recognised as itself", case, impl=got, model=want, clause="recognition: " + label,
                          finding_key="F15" if name.endswith("-") else None)

    def expect_reject(line_text, extra=(), label="near-miss", calls=1, reparse=0):
        case = {"kind": "unknown-model", "label": label, "line": line_text, "registered": list(extra), "calls": calls, "parsed_before": reparse}
        try:
            d = parse_line(line_text, extra, calls, reparse)
            got = "accepted as " + d["model"]
        except Exception as e:
            got = "error"
        res.case(canon_json(case))
        res.count(label)
        if got != "error":
            res.violation("a decay line whose model word is neither a model name nor a ModelAlias is accepted", case, impl=got, clause="rejection of unknown models")

    # published names in every context (many lines per parse: the grammar is built once per parser)
    def batch_expect(items, label, nontrivial=False):
        """items: list of (line_text, name, photos, params, fs)"""
        text = "Decay B0\n" + "\n".join(it[0] for it in items) + "\nEnddecay\n"
        try:
            p = DecFileParser.from_string(text)
            p.parse()
            dms = p._find_decay_modes("B0")
            got_all = []
            for dm in dms:
                d = p._decay_mode_details(dm, display_photos_keyword=True)
                got_all.append([d["model"], list(d["fs"]), d["model_params"]])
        except Exception as e:
            # find the culprit line by parsing one by one
            for it in items:
                expect_model(*it, label=label, nontrivial=nontrivial)
            return
        if len(got_all) != len(items):
            for it in items:
                expect_model(*it, label=label, nontrivial=nontrivial)
            return
        for it, got in zip(items, got_all):
            line_text, name, photos, params, fs = it
            want = [("PHOTOS " if photos else "") + name, list(fs), params]
            case = {"kind": "model-name", "label": label, "line": line_text, "registered": [], "calls": 0}
            res.case(canon_json(case) if nontrivial else None, case if nontrivial and len(res.samples) < 3 else None)
            res.count(label)
            if got != want:
                res.violation("a supported model name is not recognised as itself", case, impl=got, model=want, clause="recognition: " + label)

    items = []
    for n in models:
        for photos in (False, True):
            for pars in (False, True):
                ph = " PHOTOS" if photos else ""
                pa = " 1.0 x 0.5" if pars else ""
                items.append((f"1.0 K+ pi-{ph} {n}{pa};", n, photos, [1.0, "x", 0.5] if pars else "", ["K+", "pi-"]))
    for k in range(0, len(items), 60):
        batch_expect(items[k:k + 60], "published")
    items = []
    for n in models:
        # neighbouring labels that extend the name with letters, digits, underscore (and are not model names themselves)
        for ext in ("x", "_1", "2", "X_y"):
            lab = n + ext
            if spec_lex_model(models, lab + " ") is None:
                items.append((f"0.5 {lab} pi0 {n} {lab};", n, False, [lab], [lab, "pi0"]))
    for k in range(0, len(items), 60):
        batch_expect(items[k:k + 60], "label-extends-name", nontrivial=True)
    # prefix pairs
    pairs = [(a, b) for a in models for b in models if a != b and b.startswith(a)]
    for a, b in pairs:
        text = f"Decay B0\n0.5 K+ pi- {a} 1.0;\n0.5 K+ pi- {b} 2.0;\n0.25 K+ {b};\n0.25 K- {a};\nEnddecay\n"
        case = {"kind": "prefix-pair", "pair": [a, b], "text": text}
        try:
            p = DecFileParser.from_string(text)
            p.parse()
            got = [p._decay_mode_details(dm)["model"] for dm in p._find_decay_modes("B0")]
        except Exception as e:
            got = "error: " + err_class(e)
        res.case(canon_json(case), case if len(res.samples) < 3 else None)
        res.count("prefix-pairs")
        if got != [a, b, b, a]:
            res.violation("of two names where one is a prefix of the other, the one written is not the one reported", case, impl=got, model=[a, b, b, a], clause="prefix pairs")
    res.distribution["published_prefix_pairs"] = len(pairs)
    # a ModelAlias whose label is spelled like a supported model name: the word in model position is the model name itself
    for m in rng.sample(models, 6 if tier == "quick" else 40) + ["PHSP"]:
        other = "SVS" if m != "SVS" else "PHSP"
        pre = f"ModelAlias {m} {other};\n" if rng.random() < 0.5 else f"ModelAlias {m} HELAMP 1.0 0.0;\n"
        expect_model(f"1.0 K+ pi- {m};", m, False, "", ["K+", "pi-"], label="alias-spelled-like-model", nontrivial=True, prefix=pre)
        expect_model(f"1.0 K+ pi- {m} 0.5 w;", m, False, [0.5, "w"], ["K+", "pi-"], label="alias-spelled-like-model", nontrivial=True, prefix=pre)
    u = "MYMODEL"
    expect_model(f"1.0 K+ pi- {u} 0.5;", u, False, [0.5], ["K+", "pi-"], extra=[u], label="alias-spelled-like-model", nontrivial=True,
                 prefix=f"ModelAlias {u} HELAMP 1.0 0.0;\n")
    # a ModelAlias label defined in ANOTHER text, parsed earlier in this process by another parser, is not defined here: the word
    # is neither a model name nor an alias of this text, and the line is refused
    for lab in ["MyFormFactor", "FF_1", "SLBKPOLE_DtoKlnu"] + (["AliasQ", "M2"] if tier == "thorough" else []):
        expect_model(f"1.0 K+ pi- {lab};", "HELAMP", False, [1.0, 0.0], ["K+", "pi-"], label="alias-defined-here", prefix=f"ModelAlias {lab} HELAMP 1.0 0.0;\n")
        expect_reject(f"1.0 K+ pi- {lab};", label="alias-defined-elsewhere")
        expect_reject(f"1.0 K+ pi- PHOTOS {lab};", label="alias-defined-elsewhere")
    # user-registered names
    alphabet = "ABCXYZabc019_-"
    n_user = 80 if tier == "quick" else 1200
    for i in range(n_user):
        base = rng.choice(models) if rng.random() < 0.5 else "".join(rng.choice("ABCMXY") for _ in range(rng.randint(1, 4)))
        kind = rng.choice(["ext-word", "ext-dash", "prefix", "fresh", "ends-dash"])
        if kind == "ext-word":
            u = base + rng.choice(["2", "_NEW", "x", "_v2"])
        elif kind == "ext-dash":
            u = base + "-" + rng.choice(["CUT", "NEW", "2"])
        elif kind == "prefix":
            u = base[: max(1, len(base) - rng.randint(1, 3))]
        elif kind == "ends-dash":
            u = base + rng.choice(["-", "_-"])
        else:
            u = "".join(rng.choice(alphabet[:9]) + rng.choice(alphabet) for _ in range(rng.randint(1, 3)))
        if u in models or u == "PHOTOS" or u[0] in "0123456789-_." or u.startswith("End") or u in ("Decay", "Enddecay"):
            continue
        others = [base + "-ALT", "ZZTOP"] if rng.random() < 0.5 else []
        extra = [x for x in dict.fromkeys([u] + others) if x not in models]
        calls = rng.choice([1, 1, 2, 3])
        reparse = rng.choice([0, 0, 1, 2])
        photos = rng.random() < 0.3
        pars = rng.random() < 0.6
        ph = " PHOTOS" if photos else ""
        pa = " 0.25 w" if pars else ""
        expect_model(f"1.0 K+ pi-{ph} {u}{pa};", u, photos, [0.25, "w"] if pars else "", ["K+", "pi-"], extra=extra, calls=calls,
                     label="registered:" + kind, nontrivial=True, reparse=reparse)
        # the published names must all still work when user names are registered
        m = rng.choice(models)
        expect_model(f"1.0 K+ pi- {m} 3;", m, False, [3.0], ["K+", "pi-"], extra=extra, calls=calls, label="published-with-registered", nontrivial=True,
                     reparse=rng.choice([0, 1]))
        # a name registered with one parser is not known to another parser made afterwards (nor to one that registers other names)
        if spec_lex_model(models, u + " ") is None and spec_lex_model(models, u + ";") is None:
            expect_reject(f"1.0 K+ pi- {u};", extra=(), label="registered-elsewhere")
            if others and u not in others:
                expect_reject(f"1.0 K+ pi- {u} 0.25;", extra=[x for x in others if x not in models], label="registered-elsewhere")
        # a word extending the registered name with a word character is not that model
        if True:
            near = u + rng.choice(["x", "_", "7", "X"])
            if spec_lex_model(models + extra, near + " ") is None and near not in extra:
                expect_reject(f"1.0 K+ pi- {near};", extra=extra, label="near-miss-of-registered", calls=calls, reparse=rng.choice([0, 1]))
    # registered names that do not look like the published ones: first character a digit, a sign, a dot, an underscore or a
    # bracket; characters no label has (`:`); a registered name is whatever string the user gave, and in the model position it
    # is read as itself (MODEL_NAME has priority over numbers and labels there)
    odd = ["2HDM", "3BODY_PHSP", "-X", ".X", "+Y", "(M)", "FOO:1", "_U", "M'", "A*B", "a/b", "X~", "_", "7TeV-tune", "-", "2",
           # characters outside ASCII, among them ones that a compatibility normalisation would fold onto others (micro sign,
           # superscript two, full-width letter, a true minus sign): a registered name is reported character for character
           "MY MODEL", "Model v2 (tuned)",
           "BTOSLL_\u00b5\u00b5", "FLATQ\u00b2", "\uff2dODEL", "X\u2212Y", "Mod\u00e8le", "\u039b_b"]
    for u in odd if tier == "thorough" else rng.sample(odd[:16], 5) + odd[16:18] + rng.sample(odd[18:], 3):
        extra = [u] + (["ZZTOP"] if rng.random() < 0.5 else [])
        calls = rng.choice([1, 2])
        for photos, pars in ((False, False), (True, True), (False, True)):
            ph = " PHOTOS" if photos else ""
            pa = " 0.25 w" if pars else ""
            expect_model(f"1.0 K+ pi-{ph} {u}{pa};", u, photos, [0.25, "w"] if pars else "", ["K+", "pi-"], extra=extra, calls=calls,
                         label="registered:odd-spelling", nontrivial=True, reparse=rng.choice([0, 1]))
    # near-miss unknown words
    n_near = 120 if tier == "quick" else 2000
    for i in range(n_near):
        m = rng.choice(models)
        r = rng.random()
        if r < 0.35:
            w = m + rng.choice(["x", "_", "7", "S", "_NEW"])
        elif r < 0.6:
            w = m[:-1] if len(m) > 2 else m + "q"
        elif r < 0.8:
            k = rng.randrange(len(m))
            w = m[:k] + rng.choice("QZJ") + m[k + 1:]
        else:
            w = m.lower() if m.lower() != m else m + "y"
        # the near miss must be a single word that is no model name and contains no model name as a delimited prefix
        if any(c not in WORD for c in w) or spec_lex_model(models, w + " ") is not None or w == "PHOTOS" or w[0].isdigit():
            continue
        expect_reject(f"1.0 K+ pi- {w};")
        expect_reject(f"1.0 K+ pi- {w} 1.0 2.0;", label="near-miss-with-parameters")
    return res.done()
