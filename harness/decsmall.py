"""Small-scope part of the .dec correspondence: EVERY document of up to three statements over a small vocabulary chosen for its
name relations (a particle, its antiparticle, aliases of both, a self-conjugate particle and an alias of it, a name contained in
another name, copies, conjugates, redefinitions, an empty block, a line with PHOTOS / parameters / a ModelAlias).  Random generation
reaches such coincidences rarely; here each of them occurs, alone and together with every other one (quick: one slice in `parts`
chosen by the seed; thorough: all)."""
from __future__ import annotations

import itertools

PHSP = ["named", "PHSP", None]
VOCAB = [
    ["decay", "D0", [["1.0", ["K-", "pi+"], False, PHSP]]],
    ["decay", "D0", [["0.5", ["eta", "MyD"], False, PHSP], ["0.5", ["eta'", "eta"], True, ["named", "VSS", [["word", "x"]]]]]],
    ["decay", "anti-D0", [["1.0", ["K+", "pi-"], False, PHSP]]],
    ["decay", "MyD", [["0.25", ["eta", "eta"], False, ["alias", "M"]], ["0.75", ["K-", "eta'"], False, PHSP]]],
    ["decay", "eta'", [["0.4", ["eta", "pi0"], False, PHSP], ["0.6", ["pi0", "eta"], False, ["named", "HELAMP", [["num", "1.0"], ["word", "-x"]]]]]],
    ["decay", "eta", [["1", ["gamma", "gamma"], False, PHSP]]],
    ["decay", "eta", []],
    ["decay", "J/psi", [["0.6", ["e+", "e-"], True, PHSP], ["0.4", ["D0", "anti-D0"], False, PHSP]]],
    ["decay", "K0", [["1.0", ["eta'"], False, PHSP]]],
    ["alias", "MyD", "D0"],
    ["alias", "MyD", "anti-D0"],
    ["alias", "Myanti", "anti-D0"],
    ["chargeconj", "MyD", "Myanti"],
    ["chargeconj", "Myanti", "MyD"],
    ["chargeconj", "MyJ", "J/psi"],
    ["chargeconj", "MyD", "D0"],
    ["cdecay", "anti-D0"],
    ["cdecay", "Myanti"],
    ["cdecay", "MyJ"],
    ["cdecay", "D0"],
    ["cdecay", "MyD"],
    ["copydecay", "MyD", "D0"],
    ["copydecay", "Copy", "D0"],
    ["copydecay", "Copy2", "D0"],
    ["copydecay", "D0", "anti-D0"],
    ["copydecay", "Copy", "MyD"],
    ["define", "x", "0.75"],
    ["define", "x", "0.25"],
    ["model_alias", "M", ["named", "HELAMP", [["word", "x"], ["num", "1.0"]]]],
    ["model_alias", "M", ["named", "PHSP", None]],
]


def docs(max_len: int = 3, part=(0, 1), need=("decay",)):
    """all statement sequences of length 1..max_len (repetition allowed) containing a statement of one of the kinds in `need`;
    with part = (k, m) the sequences of length <= 2 are all given and those of length 3 only every m-th, starting with the k-th"""
    import copy

    k = 0
    for n in range(1, max_len + 1):
        for seq in itertools.product(range(len(VOCAB)), repeat=n):
            if need and not any(VOCAB[i][0] in need for i in seq):
                continue
            k += 1
            if n >= 3 and k % part[1] != part[0]:
                continue
            yield [copy.deepcopy(VOCAB[i]) for i in seq]
