"""C12: flattening multiplies branching fractions and keeps exactly the leaves."""
from __future__ import annotations

import itertools
from fractions import Fraction

from . import gen
from .c11 import build_chain, mode_canon_py
from .common import Batch, Result, canon_json, frac, load_corpus, rng_for


def spec_flatten(decays: dict, mother: str, stable):
    """leaves and product of branching fractions by direct recursion over the tree (the specification)"""

    def go(name):
        dm = decays[name]
        bf = dm.bf
        leaves = []
        for d in dm.daughters.to_list():
            if d in decays and d not in stable:
                b, l = go(d)
                bf = bf * b
                leaves += l
            else:
                leaves.append(d)
        return bf, leaves

    bf, leaves = go(mother)
    return bf, sorted(leaves)


def run(ctx):
    from decaylanguage import DecayChain, DecayMode

    tier, seed = ctx["tier"], ctx["seed"]
    rng = rng_for(seed, "c12")
    res = Result("single acyclic chains (exhaustive small shapes, random beyond) x stable subsets x permutations of the "
                 "sub-decay mapping; exact Fraction branching fractions compared exactly, floats to 1e-12; non-trivial = "
                 "distinct (chain, stable set) with >= 2 decaying particles below the mother actually replaced")
    batch = Batch(ctx["driver_ok"])
    max_exh = 4 if tier == "quick" else 5
    n_random = 300 if tier == "quick" else 4000

    def biggest(dc):
        """largest number of daughters of one decay (a multiplicity is a count: this is cheap whatever the counts are)"""
        return max((sum(v.daughters.values()) for v in dc.decays.values()), default=0)

    def one(dc, stable, label, perm=None, raw=None):
        if biggest(dc) > 10 ** 5:
            # a chain whose counts have been blown up by an earlier call that modified it in place: reported there, not used again
            return False
        case = {"kind": "flatten", "label": label, "mother": dc.mother, "stable": sorted(stable), "stable_given_as": type(raw).__name__ if raw is not None else "list",
                "decays": [[k, mode_canon_py(v)] for k, v in dc.decays.items()]}
        before = canon_json(case["decays"])
        want_bf, want_fs = spec_flatten(dc.decays, dc.mother, stable)
        wire_decays = [[k, v.bf, v.daughters.to_list()] for k, v in dc.decays.items()]      # as they are before the call
        try:
            fl = dc.flatten(stable_particles=stable if raw is None else raw)
        except Exception as e:
            res.violation(f"flatten raised {type(e).__name__}: {e}", case, clause="flatten")
            res.case()
            return True
        if biggest(dc) > 10 ** 5 or sum(fl.top_level_decay().daughters.values()) > 10 ** 6:
            res.violation("flatten changed the original chain (the multiplicities of its decays have grown beyond anything the chain held)", case, clause="original unchanged")
            res.case()
            return False
        after = canon_json([[k, mode_canon_py(v)] for k, v in dc.decays.items()])
        got_bf, got_fs = fl.bf, fl.top_level_decay().daughters.to_list()
        exact = isinstance(want_bf, Fraction)
        bf_ok = (got_bf == want_bf) if exact else (abs(got_bf - want_bf) <= 1e-12 * abs(want_bf))
        top = dc.top_level_decay()
        meta_ok = canon_json(dict(fl.top_level_decay().metadata)) == canon_json(dict(top.metadata))
        if not bf_ok:
            res.violation("branching fraction is not the product over the tree", case, impl=repr(got_bf), model=repr(want_bf), clause="bf product")
        if got_fs != want_fs:
            res.violation("final state is not the multiset of leaves", case, impl=got_fs, model=want_fs, clause="leaves")
        if len(fl.decays) != 1 or fl.mother != dc.mother:
            res.violation("result still has sub-decays", case, impl=list(fl.decays), clause="no sub-decays")
        if not meta_ok:
            res.violation("top-level model information not kept", case, impl=dict(fl.top_level_decay().metadata), clause="metadata")
        changed = before != after
        if changed:
            res.violation("flatten changed the original chain", case, clause="original unchanged")
        replaced = [k for k in dc.decays if k not in stable and k != dc.mother]
        nt = canon_json([case["decays"], case["stable"]]) if len(replaced) >= 2 else None
        res.case(nt, {"mother": dc.mother, "stable": sorted(stable), "bf": repr(got_bf), "fs": got_fs} if nt else None)
        res.count("flatten_calls")
        res.count("exact" if exact else "float")
        if exact:
            def on(ans, case=case, want_bf=want_bf, want_fs=want_fs):
                if ans is None:
                    return
                if ans[0] != "ok" or frac(ans[1][0]) != want_bf or list(ans[1][1]) != want_fs:
                    res.violation("model flatten differs from the tree specification / the code", case, model=ans, impl=[repr(want_bf), want_fs],
                                  clause="model tie: flatten")

            batch.add(["flatten", dc.mother, wire_decays, sorted(stable)], on)
        # a chain that a call has modified is not used again (its later answers would only repeat the finding, and a chain that
        # grows at every call makes the run unbounded)
        return not changed

    def stable_sets(dc, rng, all_if=6):
        cand = [k for k in dc.decays if k != dc.mother]
        others = sorted({d for v in dc.decays.values() for d in v.daughters.to_list()} - set(dc.decays))
        sets = []
        if len(cand) <= all_if:
            for r in range(len(cand) + 1):
                for s in itertools.combinations(cand, r):
                    sets.append(list(s))
        else:
            sets.append([])
            for _ in range(20):
                sets.append([c for c in cand if rng.random() < 0.4])
        # stable sets may also name particles that do not decay, or are not in the chain
        if others:
            sets.append([others[0]] + (cand[:1]))
        sets.append(["not-in-chain"])
        return sets

    dnames = ["D0", "K_1(1270)+", "pi0", "K_S0", "rho0", "eta"]
    snames = ["gamma", "pi+", "e-"]
    n_exh = 0
    for spec in gen.all_small_tree_specs(max_exh, dnames, snames, max_mult=2 if tier == "quick" else 3):
        n_exh += 1
        if tier == "quick" and len(spec) == 4 and n_exh % 3:
            continue
        if tier != "quick" and len(spec) == 5 and n_exh % 4 != seed % 4:
            continue        # five decaying particles with multiplicities up to 3: one shape in four per run (62 208 shapes in all)
        dc = build_chain(spec, rng, exact=True, with_meta=False)
        intact = True
        for st in stable_sets(dc, rng, all_if=4 if tier == "quick" else 6):
            if not one(dc, st, "exhaustive"):
                intact = False
                break
        # every permutation of the mapping (small cases)
        if intact and (len(spec) <= 4 or (tier != "quick" and len(spec) == 5 and n_exh % 32 == seed % 32)):
            snap0 = canon_json([[k, mode_canon_py(v)] for k, v in dc.decays.items()])
            base = dc.flatten()
            for perm in itertools.permutations(list(dc.decays.items())):
                dcp = DecayChain(dc.mother, dict(perm))
                f = dcp.flatten()
                res.case()
                res.count("permutations")
                if canon_json([[k, mode_canon_py(v)] for k, v in dc.decays.items()]) != snap0:
                    res.violation("flatten changed the decay modes of the chain it was called on (shared with the original chain)",
                                  {"kind": "perm", "mother": dc.mother, "decays": [[k, mode_canon_py(v)] for k, v in dc.decays.items()]},
                                  clause="original unchanged")
                    break
                if f.bf != base.bf or f.top_level_decay().daughters.to_list() != base.top_level_decay().daughters.to_list():
                    res.violation("flatten depends on the order of the sub-decay mapping",
                                  {"kind": "perm", "mother": dc.mother, "order": [k for k, _ in perm]}, clause="order independence")
    for i in range(n_random):
        n_dec = rng.choice([2, 3, 3, 4, 5, 6, 8, 10])
        spec = gen.rand_tree_spec(rng, n_dec, max_mult=3, all_reachable=rng.random() < 0.9)
        exact = rng.random() < 0.7
        dc = build_chain(spec, rng, exact=exact, with_meta=True)
        items = list(dc.decays.items())
        rng.shuffle(items)
        dc = DecayChain(dc.mother, dict(items))
        intact = True
        for st in rng.sample(stable_sets(dc, rng), k=3):
            if not one(dc, st, "random"):
                intact = False
                break
        if intact and i % 3 == 0:
            # the chain edited through its public mapping after it has been flattened: a so-far stable particle is given a decay,
            # then a decaying particle is made stable again; every later answer describes the chain as it is then
            snap_ = canon_json([[k, mode_canon_py(v)] for k, v in dc.decays.items()])
            _ = dc.visible_bf
            if biggest(dc) > 10 ** 5 or canon_json([[k, mode_canon_py(v)] for k, v in dc.decays.items()]) != snap_:
                res.violation("visible_bf changed the chain it was asked about", {"kind": "flatten", "label": "history", "mother": dc.mother, "call": "visible_bf"}, clause="original unchanged")
                continue
            leaves = sorted({d for v in dc.decays.values() for d in v.daughters.to_list()} - set(dc.decays))
            if leaves:
                leaf = rng.choice(leaves)
                bf = Fraction(1, 3) if exact else 0.25
                dc.decays[leaf] = DecayMode(bf, ["zz_new1", "zz_new1", "zz_new2"])
                if one(dc, [], "history:decay-added") and one(dc, [leaf], "history:decay-added"):
                    gone = rng.choice([k for k in dc.decays if k != dc.mother])
                    del dc.decays[gone]
                    one(dc, [], "history:decay-removed")
    # stable set given as other iterables
    # (a fresh chain for every call: a chain that a call has modified is not used again, see `one`)
    for st in (("B",), {"B"}, ["E"], "E", {"E": 1}, frozenset({"B", "E"}), "B E", ("E", "B")):
        dc = build_chain([("A", ["B", "B", "c"]), ("B", ["d", "E"]), ("E", ["f", "f"])], rng, exact=True)
        # a particle is kept stable when `name in container` holds for the container as given (for a str: as a substring)
        members = [k for k in dc.decays if k != dc.mother and k in st]
        one(dc, members, "iterable-kinds", raw=st)
    for st in ("pi0", "K_S0 pi0", "D0", ("pi0",), frozenset({"K_S0"}), {"D0": 1}, "pi", "K_S0,pi0"):
        dc = build_chain([("D*+", ["D0", "pi+"]), ("D0", ["K_S0", "pi0", "pi0"]), ("K_S0", ["pi+", "pi-"]), ("pi0", ["gamma", "gamma"])], rng, exact=True)
        members = [k for k in dc.decays if k != dc.mother and k in st]
        one(dc, members, "iterable-kinds", raw=st)
    # names are plain strings: a name that some matching scheme would read as a pattern (`K*0`, `D*+`, `a?c`, `[ab]`, `B.`) designates
    # itself only; the other particles of the chain that such a pattern would match are replaced by their daughters as ever
    fams = [("K*0", ["K_S0", "K0", "K_0*0", "K_L0"]), ("D*+", ["D+", "D_s+", "D_s*+"]), ("anti-K*0", ["anti-K0", "anti-K_0*0"]),
            ("a?c", ["abc"]), ("[ab]", ["a", "b"]), ("B.", ["B0", "B+"]), ("D_s*+", ["D_s+", "D_s1+"]), ("K_2*0", ["K_20", "K_2(1770)0"]),
            ("pi+", ["pi", "pii"]), ("(K)", ["K"]), ("X|Y", ["X", "Y"]), ("K\\d", ["K1"])]
    for pat, matches in fams:
        for x in matches if tier == "thorough" else matches[:2]:
            for st in ([pat], [x], [pat, x], [], [pat, "pi0"]):
                for raw_ in (None, rng.choice([tuple, set, frozenset])(st)):
                    dc = build_chain([("M", [pat, x, "pi+"]), (pat, ["K+", "pi-"]), (x, ["pi+", "pi-", "pi0"]), ("pi0", ["gamma", "gamma"])], rng, exact=True)
                    one(dc, st, "pattern-like-names", raw=raw_)
            res.count("pattern_like_name_chains")
    batch.run()
    return res.done()
