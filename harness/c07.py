"""C07: global declarations are reported completely, later declarations winning."""
from __future__ import annotations

import os

from . import gen
from .common import Batch, Result, canon_json, conv_tree, err_class, raw_parse, render_doc, rng_for
from .decsnap import impl_queries, model_queries, ref_widths


def spec_last_wins(pairs):
    d = {}
    for k, v in pairs:
        d[k] = v
    return [[k, v] for k, v in d.items()]


def gen_globals(rng):
    """0..6 statements of each kind in random order and position relative to Decay blocks, with repeated names"""
    pool = gen.safe_names(rng, 6, synthetic=0.3)
    real = [n for n in ["K*0", "rho0", "D*+", "B0", "pi0", "a_1+", "K_S0", "phi", "J/psi", "D_s+"]]
    stmts = []

    def num():
        return rng.choice(gen.NUM_FORMS)

    for _ in range(rng.randint(0, 5)):
        stmts.append(["alias", rng.choice(pool), rng.choice(pool + real)])
    for _ in range(rng.randint(0, 4)):
        stmts.append(["chargeconj", rng.choice(pool), rng.choice(pool)])
    for _ in range(rng.randint(0, 5)):
        stmts.append(["define", rng.choice(["dm", "x", "beta", "a/b", "q(1)"]), num()])
    for _ in range(rng.randint(0, 3)):
        stmts.append(["copydecay", rng.choice(pool), rng.choice(pool)])
    for _ in range(rng.randint(0, 4)):
        stmts.append(["cdecay", rng.choice(pool)])
    for _ in range(rng.randint(0, 4)):
        n = rng.choice(pool + real + real)
        stmts.append(["particle_def", n, rng.choice(["1.5", "0.13957", "5.279", "1", "2E-1"]), [rng.choice(["0.1", "1e-3", "0", ".5"])] if rng.random() < 0.5 else None])
    for _ in range(rng.randint(0, 5)):
        stmts.append(["pythia", rng.choice(["PythiaGenericParam", "PythiaAliasParam", "PythiaBothParam"]), rng.choice(["ParticleDecays", "StringZ", "A"]),
                      rng.choice(["mixB", "usePowerLaw", "b"]),
                      rng.choice([["word", "off"], ["word", "on"], ["num", "0.5"], ["num", "1"], ["num", "-2E-3"], ["word", "inf"], ["word", "-Infinity"], ["word", "nan"], ["word", "x9"], ["word", "NaNo"]])])
    for _ in range(rng.randint(0, 5)):
        stmts.append(["jetset", f"{rng.choice(['PARJ', 'MSTJ', 'MSTU', 'x'])}({rng.randint(1, 30)})", rng.choice(["0.36", "12", "1", "-3", "2E-4", "+7", "1.", "007"])])
    ls_names = rng.sample(pool + real, 4)
    for _ in range(rng.randint(0, 3)):
        stmts.append(["ls_def", rng.choice(["LSFLAT", "LSNONRELBW", "LSMANYDELTAFUNC"]), rng.choice(ls_names)])
    for _ in range(rng.randint(0, 3)):
        stmts.append(["setlsbw", rng.choice(ls_names), rng.choice(["0.0", "3.0", "1"])])
    for _ in range(rng.randint(0, 3)):
        stmts.append(["changemasslimit", rng.choice(["ChangeMassMin", "ChangeMassMax"]), rng.choice(ls_names), rng.choice(["1.1", "0.5", "2"])])
    for _ in range(rng.randint(0, 3)):
        stmts.append(["inc_factor", rng.choice(["IncludeBirthFactor", "IncludeDecayFactor"]), rng.choice(ls_names), rng.random() < 0.5])
    for _ in range(rng.randint(0, 3)):
        stmts.append(["setlspw", rng.choice(pool), rng.choice(pool), rng.choice(pool), str(rng.randint(0, 12))])
    for _ in range(rng.randint(0, 3)):
        stmts.append(["global_photos", rng.random() < 0.5])
    for _ in range(rng.randint(0, 3)):
        stmts.append(["model_alias", rng.choice(["MA", "MB"]), ["named", rng.choice(["PHSP", "HELAMP", "VSS_BMIX"]), gen.rand_params(rng) if rng.random() < 0.6 else None]])
    # statements sit anywhere relative to Decay blocks
    for _ in range(rng.randint(0, 3)):
        stmts.append(["decay", rng.choice(pool), [[rng.choice(gen.BF_CHOICES), [rng.choice(pool)], False, ["named", "PHSP", None]]]])
    rng.shuffle(stmts)
    return stmts


def run(ctx):
    from decaylanguage import DecFileParser

    tier, seed = ctx["tier"], ctx["seed"]
    rng = rng_for(seed, "c07")
    res = Result("generated documents with 0..6 statements of each of the 17 kinds in random order and position, repeated names, "
                 "integer/float/word/signed values; all global queries compared; non-trivial = distinct text with a name declared twice")
    batch = Batch(ctx["driver_ok"])
    n_docs = 300 if tier == "quick" else 3000
    def one(doc):
        text = render_doc(doc)
        case = {"kind": "globals", "text": text}
        try:
            wire = conv_tree(raw_parse(text))
            p = DecFileParser.from_string(text)
            p.parse()
        except Exception as e:
            res.violation(f"a well-formed text is rejected: {type(e).__name__}: {str(e)[:100]}", case, clause="well-formed text")
            res.case()
            return
        if wire != doc:
            res.violation("the parse tree does not state what was written", case, impl=wire[:3], model=doc[:3], clause="reading of the text")
        try:
            impl = impl_queries(p)
        except Exception as e:
            res.violation(f"a query raised {type(e).__name__}: {e}", case, clause="queries")
            res.case()
            return
        if res.evaluations % 4 == 2:
            # comments holding characters some line-splitting routines cut at, followed by statement-like text (a commented-out old
            # setting): a comment ends at the line feed only, the declarations are those of the plain text - string and file input
            odd = ["\x0c", "\x0b", "\x1c", "\x1d", "\x1e", "\x85", "\u2028", "\u2029"]
            tails = ["Define dm 0.472e12", "Alias MyK*0 K_0*0", "yesPhotos", "noPhotos", "JetSetPar PARJ(21)=0.36", "ChargeConj a b", "Particle B0 5.2 0.1", "LSFLAT rho0"]
            lines_ = []
            inside_ = False
            for ln in text.split("\n"):
                lines_.append(ln)
                if ln.startswith("Decay "):
                    inside_ = True
                elif ln.startswith("Enddecay"):
                    inside_ = False
                if not inside_ and ln and rng.random() < 0.4:
                    lines_.append("# was:" + rng.choice(odd) + rng.choice(tails))
            t_odd = "\n".join(lines_)
            try:
                if res.evaluations % 8 == 2:
                    q_odd = DecFileParser.from_string(t_odd)
                else:
                    import tempfile

                    with tempfile.TemporaryDirectory(prefix="verif_c07_") as td_:
                        with open(os.path.join(td_, "odd.dec"), "w", encoding="utf-8", newline="") as f_:
                            f_.write(t_odd)
                        q_odd = DecFileParser(os.path.join(td_, "odd.dec"))
                q_odd.parse()
                via_odd = impl_queries(q_odd)
            except Exception as e:
                via_odd = f"{type(e).__name__}: {str(e)[:120]}"
            res.count("odd_comment_texts")
            if canon_json(via_odd) != canon_json(impl):
                bad_ = [k2 for k2 in impl if not isinstance(via_odd, dict) or canon_json(via_odd.get(k2)) != canon_json(impl[k2])]
                res.violation("text inside a comment (after an unusual character) is reported as a declaration", dict(case, text=t_odd), impl=bad_[:4] or via_odd,
                              clause=(bad_[0] if bad_ else "queries"))
        if res.evaluations % 3 == 0:
            def again(text=text):
                q = DecFileParser.from_string(text)
                q.parse()
                return impl_queries(q)

            res.remember({"text": text}, again, impl)
        if res.evaluations % 5 == 1 and len(doc) >= 2:
            # the same statements given as two files (the first ending in a comment without line end, str and pathlib.Path
            # arguments): every statement of every file is accounted for
            import pathlib
            import tempfile

            k = rng.randint(1, len(doc) - 1)
            with tempfile.TemporaryDirectory(prefix="verif_c07_") as td:
                n1, n2 = rng.choice([("a.dec", "b.dec"), ("main.dec", "analysis.dec"), ("f2.dec", "f10.dec"), ("user.dec", "DECAY.DEC")])
                f1, f2 = os.path.join(td, n1), os.path.join(td, n2)
                open(f1, "w").write(render_doc(doc[:k]) + rng.choice(["# end of the common part", "", "#"]))
                open(f2, "w").write(render_doc(doc[k:]))
                try:
                    q = DecFileParser(f1, pathlib.Path(f2))
                    q.parse()
                    via_files = impl_queries(q)
                except Exception as e:
                    via_files = f"{type(e).__name__}: {e}"
            res.count("two_file_inputs")
            if canon_json(via_files) != canon_json(impl):
                bad = [k2 for k2 in impl if not isinstance(via_files, dict) or canon_json(via_files.get(k2)) != canon_json(impl[k2])]
                res.violation("the statements given as two files are not all reflected in the queries", dict(case, split_after=k), impl=bad[:4] or via_files,
                              clause=(bad[0] if bad else "queries"))
        # direct statement of "later wins" for the plain dictionaries
        direct = {
            "aliases": spec_last_wins([(s[1], s[2]) for s in doc if s[0] == "alias"]),
            "charge_conjugates": spec_last_wins([(s[1], s[2]) for s in doc if s[0] == "chargeconj"]),
            "decays2copy": spec_last_wins([(s[1], s[2]) for s in doc if s[0] == "copydecay"]),
            "definitions": spec_last_wins([(s[1], float(s[2])) for s in doc if s[0] == "define"]),
            "cdecays": sorted(s[1] for s in doc if s[0] == "cdecay"),
            "global_photos": ([s[1] for s in doc if s[0] == "global_photos"] or [False])[-1],
            "lineshape_pw": [[[s[1], s[2], s[3]], int(s[4])] for s in doc if s[0] == "setlspw"],
        }
        for k, v in direct.items():
            if impl[k] != v:
                res.violation(f"query {k} does not report the declarations (later wins)", case, impl=impl[k], model=v, clause=k)
        keys = [s[0] + ":" + str(s[1]) for s in doc]
        nt = canon_json(text) if len(keys) != len(set(keys)) else None
        res.case(nt, {"text": text[:300]} if nt and len(res.samples) < 3 else None)
        for s in doc:
            res.count(s[0])

        def on(ans, case=case, impl=impl):
            if ans is None:
                return
            if ans[0] != "ok":
                res.violation("model rejects the document", case, model=ans, clause="model tie")
                return
            model = model_queries(ans[1])
            for k in impl:
                if canon_json(impl[k]) != canon_json(model[k]):
                    res.violation(f"query {k} differs from the model", case, impl=impl[k], model=model[k], clause=k)
                    break

        batch.add(["queries", ref_widths(doc), wire], on)

    for i in range(n_docs):
        doc = gen_globals(rng)
        one(doc)
        if i % 3 == 0 and doc:
            # a document sharing most of its text with the previous one, then the previous one again (every parse answers
            # from its own text)
            one(gen.sibling_doc(rng, doc))
            one(doc)
            res.count("siblings")
    from . import decsmall

    for doc in decsmall.docs(3, ((seed + 12) % 32, 32) if tier == "quick" else (0, 2), need=()):
        uses_alias = any(ln[3][0] == "alias" for st in doc if st[0] == "decay" for ln in st[2])
        if uses_alias and not any(st[0] == "model_alias" for st in doc):
            continue    # a line naming an undefined ModelAlias: rightly refused (C06); not a well-formed text
        one(doc)
        res.count("small_scope_documents")
    batch.run()
    return res.done()
