"""C03: CDecay yields the exact charge conjugate of the referenced decay table."""
from __future__ import annotations

from . import gen
from .common import Batch, Result, canon_json, conv_tree, err_class, load_corpus, raw_parse, render_doc, rng_for, parse_with
from .decsnap import impl_tables, model_tables


def gen_cc_doc(rng, names_all):
    """Decay / Alias / ChargeConj (both orientations) / CopyDecay / CDecay in random order; daughters from the whole
    EvtGen table, aliases, self-conjugate and unknown names; every name the subject of at most one CDecay"""
    from decaylanguage.utils import charge_conjugate_name as ccn

    real = [n for n in rng.sample(names_all, 12) if gen.safe_label(n)]
    selfc = [n for n in ["pi0", "rho0", "eta", "J/psi", "K_S0", "gamma", "phi"]]
    unknown = ["Zork", "MyX", "Foo*"]
    stmts = []
    aliases = []
    pairs = []
    # aliased conjugate pairs, declared in either orientation
    for k in range(rng.randint(0, 3)):
        base = rng.choice([n for n in real if ccn(n) not in (n, f"ChargeConj({n})") and gen.safe_label(ccn(n))] or ["D+"])
        a, b = f"My{k}{base}", f"My{k}{ccn(base)}"
        if not (gen.safe_label(a) and gen.safe_label(b)):
            continue
        stmts.append(["alias", a, base])
        stmts.append(["alias", b, ccn(base)])
        stmts.append(["chargeconj", a, b] if rng.random() < 0.5 else ["chargeconj", b, a])
        aliases += [a, b]
        pairs.append((a, b))
    # an alias of a self-conjugate particle with its ChargeConj (finding F14)
    if rng.random() < 0.25:
        stmts += [["alias", "Myrho", "rho0"], ["chargeconj", "Myrho", "rho0"] if rng.random() < 0.5 else ["chargeconj", "rho0", "Myrho"]]
        aliases.append("Myrho")
    pool = real + selfc + unknown + aliases
    mothers = []
    cand_mothers = [n for n in real if gen.safe_label(n)] + [a for a, _ in pairs] + (["rho0"] if "Myrho" in aliases else [])
    for _ in range(rng.randint(1, 5)):
        m = rng.choice(cand_mothers)
        if m in mothers:
            continue
        mothers.append(m)
        lines = []
        for _ in range(rng.randint(1, 4)):
            ds = [rng.choice(pool) for _ in range(rng.randint(1, 4))]
            ds = [d for d in ds if gen.safe_label(d)] or ["pi0"]
            lines.append([rng.choice(gen.BF_CHOICES), ds, rng.random() < 0.3,
                          rng.choice([["named", "PHSP", None], ["named", "HELAMP", [["num", "1.0"], ["word", "x1"], ["num", "-0.5"]]], ["named", "SVS", None]])])
        stmts.append(["decay", m, lines])
    copies = []
    for _ in range(rng.randint(0, 2)):
        new = rng.choice(["Copy1", "MyCopy", "C2"] + [b for _, b in pairs])
        if new in mothers or new in copies:
            continue
        copies.append(new)
        stmts.append(["copydecay", new, rng.choice(mothers)])
        if rng.random() < 0.5:
            stmts.append(["chargeconj", new, "anti-" + new])
    cds = set()
    cands = []
    for m in mothers + copies:
        c = None
        for a, b in pairs:
            if m == a:
                c = b
            if m == b:
                c = a
        if m == "rho0" and "Myrho" in aliases:
            c = "Myrho"
        if c is None:
            c = ccn(m)
            if c.startswith("ChargeConj("):
                c = "anti-" + m if m in copies else None
        if c and gen.safe_label(c):
            cands.append(c)
    cands += [rng.choice(mothers), "Zork", rng.choice(real)]   # precedence of Decay; no source; maybe no source
    for c in rng.sample(cands, min(len(cands), rng.randint(1, 4))):
        if c not in cds:
            cds.add(c)
            stmts.append(["cdecay", c])
            if rng.random() < 0.2:
                # the same CDecay statement given again (a user file read after the main file): each statement gets its table
                stmts.append(["cdecay", c])
    if cds and rng.random() < 0.3:
        # a CopyDecay statement naming the subject of a CDecay, from a source that has no table: the copy creates nothing, the
        # CDecay statement gets its table all the same
        stmts.append(["copydecay", rng.choice(sorted(cds)), rng.choice(["NoSuchSource", "Zork", "pi0"])])
    rng.shuffle(stmts)
    return stmts


def run(ctx):
    from decaylanguage import DecFileParser
    from particle.converters import EvtGenName2PDGIDBiMap

    tier, seed = ctx["tier"], ctx["seed"]
    rng = rng_for(seed, "c03")
    res = Result("generated files mixing Decay / Alias / ChargeConj (both orientations) / CopyDecay / CDecay in random order, daughters "
                 "from the whole EvtGen table + aliases + self-conjugate + unknown names; both values of the switch; non-trivial = "
                 "distinct text in which a CDecay creates a table")
    batch = Batch(ctx["driver_ok"])
    names_all = [str(k) for k in EvtGenName2PDGIDBiMap._to_map.keys()]
    n_docs = 200 if tier == "quick" else 3000

    hist = [0]

    def one(text, label, doc=None):
        try:
            wire = conv_tree(raw_parse(text))
        except Exception as e:
            res.skipped += 1
            return
        for cc in (True, False):
            case = {"kind": "cdecay", "label": label, "text": text, "include_ccdecays": cc}
            try:
                p = DecFileParser.from_string(text)
                case["call"] = parse_with(p, cc)
                impl = impl_tables(p)
                err = None
            except Exception as e:
                impl, err = None, err_class(e)
            if cc and impl is not None and hist[0] % 3 == 0:
                # the same parser object parsed first with the switch off, then again in the ordinary way: the second parse is a
                # parse like any other
                try:
                    p2 = DecFileParser.from_string(text)
                    parse_with(p2, False)
                    p2.parse()
                    again = impl_tables(p2)
                except Exception as e:
                    again = "error: " + err_class(e)
                if again != impl:
                    res.violation("parse(include_ccdecays=False) followed by parse() on the same object gives other tables than parse() alone",
                                  dict(case, history=["parse(include_ccdecays=False)", "parse()"]), impl=again if isinstance(again, str) else [m for m, _ in again],
                                  model=[m for m, _ in impl], clause="which tables exist (precedence of Decay, CDecay without source, source untouched)")
            hist[0] += 1
            n_decay = len({s[1] for s in wire if s[0] == "decay"}) + len({s[1] for s in wire if s[0] == "copydecay"})
            created = impl is not None and cc and len(impl) > n_decay - 0 and any(s[0] == "cdecay" for s in wire)
            res.case(canon_json([text, cc]) if created else None, {"text": text[:500], "mothers": [m for m, _ in impl]} if created and len(res.samples) < 3 else None)
            res.count("with_cc" if cc else "without_cc")
            if impl is not None and not cc:
                # with the switch off no table may come from a CDecay statement
                src_names = [s[1] for s in wire if s[0] == "decay"] + [s[1] for s in wire if s[0] == "copydecay"]
                extra = [m for m, _ in impl if m not in src_names]
                if extra:
                    res.violation("a conjugate table was created although charge-conjugate decays are disabled", case, impl=extra, clause="switch off")

            def on(ans, case=case, impl=impl, err=err, cc=cc):
                if ans is None:
                    return
                if ans[0] == "err":
                    if err is None:
                        res.violation("model refuses, code accepts", case, model=ans, clause="model tie")
                    return
                if err is not None:
                    res.violation(f"parse() raised {err}", case, impl=err, clause="parse")
                    return
                model = model_tables(ans[1])
                if model != impl:
                    im, mm = [m for m, _ in impl], [m for m, _ in model]
                    if im != mm:
                        clause = "which tables exist (precedence of Decay, CDecay without source, source untouched)"
                        fk = "F14" if "Myrho" in mm and "Myrho" not in im else None
                    else:
                        clause = "lines of the conjugate table (same order, bf, PHOTOS, model, parameters; every daughter conjugated)"
                        fk = None
                    res.violation("tables after CDecay differ from the exact charge conjugate", case, impl=impl, model=model, clause=clause, finding_key=fk)

            batch.add(["tables", [cc], wire], on)

    for fname, c in load_corpus("C03"):
        one(c["text"], "corpus:" + fname)
    def sibling(doc):
        """the same file with its ChargeConj statements dropped, turned round, or naming another partner: read right after the
        original in the same process, it must be answered from its own statements alone"""
        out = []
        for st in doc:
            if st[0] == "chargeconj":
                r = rng.random()
                if r < 0.35:
                    continue
                if r < 0.6:
                    st = ["chargeconj", st[2], st[1]]
                elif r < 0.85:
                    st = ["chargeconj", st[1], st[2] + "x"] if gen.safe_label(st[2] + "x") else st
            out.append(st)
        return out

    for i in range(n_docs):
        doc = gen_cc_doc(rng, names_all)
        one(render_doc(doc), "generated", doc)
        if any(st[0] == "chargeconj" for st in doc) and rng.random() < 0.5:
            d2 = sibling(doc)
            one(render_doc(d2), "generated:sibling", d2)
            res.count("siblings")
    # small scope, exhaustively: every document of up to three statements over a vocabulary of related names
    from . import decsmall

    for doc in decsmall.docs(3, (seed % 32, 32) if tier == "quick" else (0, 1)):
        one(render_doc(doc), "small-scope", doc)
        res.count("small_scope_documents")
    # every EvtGen name as a daughter of a conjugated table (thorough: all; quick: a slice)
    sweep = [n for n in names_all if gen.safe_label(n)]
    if tier == "quick":
        sweep = sweep[seed % 6::6]
    for k in range(0, len(sweep), 12):
        ds = sweep[k:k + 12]
        lines = [["0.1", ds[j:j + 4], False, ["named", "PHSP", None]] for j in range(0, len(ds), 4)]
        doc = [["decay", "B0", lines], ["cdecay", "anti-B0"]]
        one(render_doc(doc), "sweep", doc)
    batch.run()
    return res.done()
