"""C04: charge conjugation is a PDG-consistent involution at every layer."""
from __future__ import annotations

from collections import Counter

from . import gen
from .common import Batch, Result, canon_json, rng_for


def run(ctx):
    from decaylanguage import DaughtersDict, DecayMode, DecFileParser
    from decaylanguage.utils import charge_conjugate_name
    from particle.converters import EvtGen2PDGNameMap, EvtGenName2PDGIDBiMap, PDG2EvtGenNameMap

    tier, seed = ctx["tier"], ctx["seed"]
    rng = rng_for(seed, "c04")
    res = Result("exhaustive over the EvtGen name table and the PDG name table; random final states and decay modes with "
                 "multiplicities and unknown labels; CDecay tables against DecayMode.charge_conjugate; non-trivial = distinct name "
                 "with a known conjugate, or final state with a repeated particle")
    batch = Batch(ctx["driver_ok"])
    name2id = {str(k): int(v) for k, v in EvtGenName2PDGIDBiMap._to_map.items()}
    id2name = {v: k for k, v in name2id.items()}

    def wrapped(n):
        return f"ChargeConj({n})"

    def is_pdg_name(n):
        try:
            PDG2EvtGenNameMap[n]
            return True
        except Exception:
            return False

    # --- EvtGen names, exhaustively
    for n, pid in name2id.items():
        c = charge_conjugate_name(n)
        case = {"kind": "evtgen-name", "name": n, "id": pid}
        known = c != wrapped(n)
        if known:
            if c not in name2id:
                res.violation("conjugate is not an EvtGen name", case, impl=c, clause="PDG consistency")
            elif name2id[c] not in (pid, -pid):
                res.violation("conjugate does not carry the negated (or the same) PDG ID", case, impl=[c, name2id[c]], clause="PDG consistency")
            cc = charge_conjugate_name(c)
            if cc != n:
                res.violation("conjugating twice does not return the original", case, impl=[c, cc], clause="involution")
        if pid % 7 == seed % 7:
            res.remember({"call": "charge_conjugate_name", "name": n}, lambda n=n: charge_conjugate_name(n), c)
        res.case(n if known else None, {"name": n, "conjugate": c} if len(res.samples) < 3 and known else None)
        res.count("evtgen_known" if known else "evtgen_no_known_conjugate")

        def on(ans, n=n, c=c, case=case):
            if ans is not None and (ans[0] != "ok" or ans[1] != c):
                res.violation("charge_conjugate_name differs from the model", case, impl=c, model=ans, clause="model tie: conjName")

        batch.add(["conj", n], on)
    # --- PDG names, exhaustively
    for n in list(PDG2EvtGenNameMap.keys()):
        n = str(n)
        c = charge_conjugate_name(n, pdg_name=True)
        case = {"kind": "pdg-name", "name": n}
        known = c != wrapped(n)
        if known:
            cc = charge_conjugate_name(c, pdg_name=True)
            if cc != n:
                res.violation("conjugating a PDG name twice does not return the original", case, impl=[c, cc], clause="involution (PDG names)")
            try:
                e, ec = PDG2EvtGenNameMap[n], PDG2EvtGenNameMap[c]
                if name2id[ec] not in (name2id[e], -name2id[e]):
                    res.violation("PDG-name conjugate does not carry the negated PDG ID", case, impl=c, clause="PDG consistency (PDG names)")
            except Exception:
                pass
        res.case("pdg:" + n if known else None)
        res.count("pdg_known" if known else "pdg_no_known_conjugate")

        def onp(ans, n=n, c=c, case=case):
            if ans is not None and (ans[0] != "ok" or ans[1] != c):
                res.violation("charge_conjugate_name(pdg_name=True) differs from the model", case, impl=c, model=ans, clause="model tie: conjPdg")

        batch.add(["conj_pdg", n], onp)
    # --- unknown labels are wrapped, never altered
    for n in ["Zork", "MyD0", "K+K-", "anti-Foo", "ChargeConj(x)", "pi+ ", "", "PI+", "k+"] + gen.name_pool(rng, 40, synthetic=1.0):
        if n in name2id:
            continue
        c = charge_conjugate_name(n)
        res.remember({"call": "charge_conjugate_name", "name": n}, lambda n=n: charge_conjugate_name(n), c)
        res.case()
        res.count("unknown_labels")
        if c != wrapped(n):
            res.violation("a name without known conjugate is not returned wrapped", {"kind": "unknown", "name": n}, impl=c, clause="unknown names")

        def onu(ans, n=n, c=c):
            if ans is not None and (ans[0] != "ok" or ans[1] != c):
                res.violation("model differs on an unknown label", {"kind": "unknown", "name": n}, impl=c, model=ans, clause="model tie")

        batch.add(["conj", n], onu)
    # --- the wrapped form of a name is itself a name without known conjugate: asked for after (or before) the name it wraps, with
    # either naming, it is wrapped once more and never unwrapped (answers do not depend on what was asked earlier)
    no_partner = [n for n in name2id if charge_conjugate_name(n) == wrapped(n)]
    hist_names = ["Xfoo", "Zork2", "MyB", "K+K-"] + gen.name_pool(rng, 12, synthetic=1.0) + rng.sample(no_partner, min(8, len(no_partner)))
    for j, n in enumerate(hist_names):
        if n in name2id and n not in no_partner:
            continue
        for flag in (False, True):
            w = wrapped(n)
            order = [n, w, wrapped(w), n] if j % 2 == 0 else [w, n, wrapped(w), w]
            got = [charge_conjugate_name(x, pdg_name=flag) for x in order]
            want = [wrapped(x) for x in order]
            if flag and is_pdg_name(n):
                continue   # the spelling is also a PDG name: the PDG route answers (covered exhaustively above)
            res.case()
            res.count("wrapped_histories")
            if got != want:
                res.violation("a name without known conjugate is altered (un-wrapped) when its wrapped form was met before", {"kind": "wrapped-history", "calls": order, "pdg_name": flag},
                              impl=got, model=want, clause="unknown names")
        dm = DecayMode(0.25, [n, "pi+", "pi+", "K-"])
        twice = dm.charge_conjugate().charge_conjugate().daughters.to_list()
        want2 = sorted([wrapped(wrapped(n)), "pi+", "pi+", "K-"])
        dd = DaughtersDict([n, wrapped(wrapped(n)), "pi-"]).charge_conjugate()
        res.case()
        if twice != want2 or len(dd) != 3:
            res.violation("conjugating a mode with an unknown name twice / a final state holding a name and a wrapped name", {"kind": "wrapped-history", "name": n},
                          impl=[twice, dd.to_list()], model=[want2, 3], clause="final states")

        def onw(ans, n=n):
            if ans is not None and (ans[0] != "ok" or ans[1] != wrapped(wrapped(n))):
                res.violation("model differs on a wrapped name", {"kind": "unknown", "name": wrapped(n)}, impl=wrapped(wrapped(n)), model=ans, clause="model tie")

        batch.add(["conj", wrapped(n)], onw)
    # --- final states and modes
    names = list(name2id)
    n_random = 500 if tier == "quick" else 6000
    for i in range(n_random):
        k = rng.randint(1, 5)
        pool = [rng.choice(names) for _ in range(k)] + (["Zork", "MyX"] if rng.random() < 0.3 else [])
        ds = []
        for p_ in pool:
            ds += [p_] * rng.choice([1, 1, 2, 3, 5])
        rng.shuffle(ds)
        dd = DaughtersDict(ds)
        cc = dd.charge_conjugate()
        want = sorted(charge_conjugate_name(x) for x in ds)
        case = {"kind": "final-state", "names": sorted(ds)}
        if cc.to_list() != want or len(cc) != len(dd):
            res.violation("conjugated final state: multiplicities / number of particles not preserved", case, impl=cc.to_list(), model=want, clause="final states")
        info = {"model": rng.choice(["PHSP", "", None]), "model_params": rng.choice([[1.0, "x"], None, "", [], 0, [0.0]]), "study": gen.json_value(rng),
                "note": rng.choice([None, "", 0, "x"])}
        dm = DecayMode(0.123, ds, **info)
        dmc = dm.charge_conjugate()
        if dmc.bf != dm.bf or canon_json(dmc.metadata) != canon_json(dm.metadata) or dmc.daughters.to_list() != want:
            res.violation("conjugated decay mode: branching fraction / metadata / daughters", case, impl=[dmc.bf, dmc.metadata, dmc.daughters.to_list()], clause="decay modes")
        res.case(canon_json(sorted(ds)) if len(ds) != len(set(ds)) else None)
        res.count("final_states")

        def onf(ans, want=want, case=case, got=cc.to_list()):
            if ans is not None and (ans[0] != "ok" or list(ans[1]) != got):
                res.violation("DaughtersDict.charge_conjugate differs from the model", case, impl=got, model=ans, clause="model tie: ddConj")

        batch.add(["dd_conj", False, sorted(ds)], onf)
        # PDG names
        if i % 5 == 0:
            pn = [str(x) for x in rng.sample(list(PDG2EvtGenNameMap.keys()), 3)]
            pds = pn + [pn[0]]
            got = DaughtersDict(pds).charge_conjugate(pdg_name=True).to_list()
            wantp = sorted(charge_conjugate_name(x, True) for x in pds)
            res.case()
            if got != wantp:
                res.violation("conjugated final state (PDG names)", {"kind": "final-state-pdg", "names": pds}, impl=got, model=wantp, clause="final states")
        # agreement with the table CDecay produces
        if i % 4 == 0:
            safe = [d for d in ds if gen.safe_label(d)]
            if safe:
                mother = rng.choice([n for n in names if gen.safe_label(n) and charge_conjugate_name(n) not in (n, wrapped(n)) and gen.safe_label(charge_conjugate_name(n))])
                cm = charge_conjugate_name(mother)
                # the decay line with or without the PHOTOS keyword and with model parameters: the conjugate table keeps them all
                ph_, mdl_ = rng.choice([("", "PHSP"), ("PHOTOS ", "PHSP"), ("PHOTOS ", "VSS"), ("", "HELAMP 1.0 0.0 1.0 3.14"), ("PHOTOS ", "SVS")])
                text = f"Decay {mother}\n0.5 {' '.join(safe)} {ph_}{mdl_};\nEnddecay\nCDecay {cm}\n"
                if rng.random() < 0.5:
                    # further CDecay statements without a source table, sorting before and after the real one: they add nothing
                    text += "CDecay (nosrc)\nCDecay zzz_nosrc\n"
                unknown = [d for d in safe if d in ("Zork", "MyX")]
                if unknown and rng.random() < 0.7:
                    # the same decay in a file that declares partners for the unknown labels (either orientation), read first in the
                    # same process: there the declared partner is the conjugate; the file without declarations is read afterwards
                    decl, part = [], {}
                    for u in dict.fromkeys(unknown):
                        part[u] = "anti" + u
                        decl.append(f"ChargeConj {u} anti{u}" if rng.random() < 0.5 else f"ChargeConj anti{u} {u}")
                    text0 = "\n".join(decl) + "\n" + text
                    try:
                        p0 = DecFileParser.from_string(text0)
                        p0.parse()
                        got0 = sorted(p0.list_decay_modes(cm)[0])
                    except Exception as e:
                        got0 = f"{type(e).__name__}: {e}"
                    want0 = sorted(part.get(d) or charge_conjugate_name(d) for d in safe)
                    res.case()
                    res.count("cdecay_agreement_declared")
                    if got0 != want0:
                        res.violation("CDecay table does not use the declared partners of user labels", {"kind": "cdecay-agree", "text": text0}, impl=got0, model=want0,
                                      clause="agreement with CDecay")
                with_copy = rng.random() < 0.4
                if with_copy:
                    # the same decay also under a second name made by CopyDecay, with its own declared conjugate and CDecay: both
                    # conjugate tables exist and both are the conjugate of the one written decay
                    cp, cpbar = rng.choice([("MyCopy", "MyCopybar"), ("AAcopy", "anti-AAcopy"), ("zz_sig", "zz_sigbar")])
                    text += f"CopyDecay {cp} {mother}\nChargeConj {cp} {cpbar}\nCDecay {cpbar}\n"
                try:
                    p = DecFileParser.from_string(text)
                    p.parse()
                    got = sorted(p.list_decay_modes(cm)[0])
                    src_d = p._decay_mode_details(p._find_decay_modes(mother)[0], display_photos_keyword=True)
                    cc_d = p._decay_mode_details(p._find_decay_modes(cm)[0], display_photos_keyword=True)
                    res.count("cdecay_agreement_metadata")
                    if (src_d["bf"], src_d["model"], src_d["model_params"]) != (cc_d["bf"], cc_d["model"], cc_d["model_params"]):
                        res.violation("the CDecay table does not keep the metadata of the decay it conjugates (branching fraction, PHOTOS flag, model, parameters)",
                                      {"kind": "cdecay-agree", "text": text}, impl=[cc_d["bf"], cc_d["model"], cc_d["model_params"]],
                                      model=[src_d["bf"], src_d["model"], src_d["model_params"]], clause="agreement with CDecay")
                    if with_copy:
                        got2 = sorted(p.list_decay_modes(cpbar)[0])
                        res.count("cdecay_agreement_with_copy")
                        if got2 != got:
                            got = {"CDecay " + cm: got, "CDecay " + cpbar: got2}
                except Exception as e:
                    got = f"{type(e).__name__}: {e}"
                wantc = DecayMode(0.5, safe).charge_conjugate().daughters.to_list()
                res.case()
                res.count("cdecay_agreement")
                if got != wantc:
                    res.violation("CDecay table and DecayMode.charge_conjugate disagree", {"kind": "cdecay-agree", "text": text}, impl=got, model=wantc, clause="agreement with CDecay")
    # two differently named aliases of one SELF-CONJUGATE particle tied by a ChargeConj statement, a Decay for one and CDecay for
    # the other (a K_S0 reconstructed on the signal side and on the tag side): the table CDecay makes is the conjugate of the decay
    for part, daughters in (("K_S0", ["pi+", "pi-", "pi0"]), ("pi0", ["e+", "e-", "gamma"]), ("J/psi", ["mu+", "mu-"]), ("phi", ["K+", "K-"]), ("rho0", ["pi+", "pi-", "gamma"])):
        for a1, a2 in (("My" + part, "Myanti-" + part), (part + "_sig", part + "_tag")):
            if not (gen.safe_label(a1) and gen.safe_label(a2)):
                continue
            text = (f"Alias {a1} {part}\nAlias {a2} {part}\nChargeConj {a1} {a2}\nDecay {a1}\n0.7 {' '.join(daughters)} PHSP;\n0.3 {daughters[0]} nu_e PHOTOS VSS;\nEnddecay\n"
                    f"CDecay {a2}\nDecay B0\n1.0 {a2} {a1} PHSP;\nEnddecay\n")
            try:
                p = DecFileParser.from_string(text)
                p.parse()
                got = [sorted(fs) for fs in p.list_decay_modes(a2)]
                chain = p.build_decay_chains("B0")
                n_sub = sum(1 for x in chain["B0"][0]["fs"] if isinstance(x, dict))
            except Exception as e:
                got, n_sub = f"{type(e).__name__}: {e}", None
            want = [DecayMode(0.7, daughters).charge_conjugate().daughters.to_list(), DecayMode(0.3, [daughters[0], "nu_e"]).charge_conjugate().daughters.to_list()]
            res.case()
            res.count("cdecay_agreement_self_conjugate_aliases")
            if got != want or n_sub != 2:
                res.violation("CDecay for a second alias of a self-conjugate particle does not give the conjugate of the decay", {"kind": "cdecay-agree", "text": text},
                              impl={"modes": got, "sub_decays_in_B0_chain": n_sub}, model={"modes": want, "sub_decays_in_B0_chain": 2}, clause="agreement with CDecay")
    batch.run()
    return res.done()
