"""C05: Define'd parameters and ModelAlias'd models mean exactly their expansion."""
from __future__ import annotations

import copy

from . import gen
from .common import Batch, Result, dec, enc, canon_json, conv_tree, err_class, load_corpus, raw_parse, render_doc, rng_for
from .decsnap import impl_tables, model_tables


def negate_literal(lit: str) -> str:
    if lit.startswith("-"):
        return lit[1:]
    if lit.startswith("+"):
        return "-" + lit[1:]
    return "-" + lit


def expand_doc(doc):
    """replace every use of a Define'd name by (the literal of) its value and every ModelAlias use by the model it stands
    for; last definition wins; the definitions themselves are dropped"""
    defs = {}
    for s in doc:
        if s[0] == "define":
            defs[s[1]] = s[2]
    mal = {}
    for s in doc:
        if s[0] == "model_alias":
            mal[s[1]] = s[2]

    def exp_params(ps):
        if ps is None:
            return None
        out = []
        for kind, v in ps:
            if kind == "word":
                neg = v.startswith("-")
                name = v[1:] if neg else v
                if name in defs:
                    out.append(["num", negate_literal(defs[name]) if neg else defs[name]])
                    continue
            out.append([kind, v])
        return out

    def exp_model(m):
        if m[0] == "alias":
            if m[1] not in mal:
                return m
            m = mal[m[1]]
        return ["named", m[1], exp_params(m[2])]

    out = []
    for s in doc:
        if s[0] in ("define", "model_alias"):
            continue
        if s[0] == "decay":
            out.append(["decay", s[1], [[l[0], l[1], l[2], exp_model(l[3])] for l in s[2]]])
        else:
            out.append(s)
    return out


def gen_c05(rng):
    idents = ["dm", "x1", "beta", "Vub", "fD", "dGamma", "q2", "inf", "nan", "Infinity", "e1", "a/b", "+eps"]
    defined = rng.sample(idents, rng.randint(0, 5))
    malias = rng.sample(["MyModel", "SLBKPOLE_DtoKlnu", "BMIX", "M2", "AliasX"], rng.randint(0, 4))
    defs = []
    for d in defined:
        for _ in range(rng.choice([1, 1, 1, 2, 3])):
            defs.append(["define", d, rng.choice(gen.NUM_FORMS)])
    mas = []
    for a in malias:
        for _ in range(rng.choice([1, 1, 2])):
            mas.append(["model_alias", a, ["named", rng.choice(["VSS_BMIX", "SLBKPOLE", "HELAMP", "PHSP", "ISGW2"]),
                                           gen.rand_params(rng, defined) if rng.random() < 0.8 else None]])
    if malias and rng.random() < 0.25:
        # a second name for an alias (`ModelAlias Second First;`), itself not used by any line: it says nothing about what the
        # first name stands for, whose uses are expanded as ever
        mas.append(["model_alias", rng.choice(["FF_Default", "Second", "MyModel2"]), ["alias", rng.choice(malias)]])
    pool = gen.safe_names(rng, 8, synthetic=0.1)
    blocks = []
    mothers = []
    for _ in range(rng.randint(1, 5)):
        m = rng.choice(pool)
        mothers.append(m)
        lines = []
        for _ in range(rng.randint(1, 4)):
            r = rng.random()
            if malias and r < 0.45:
                model = ["alias", rng.choice(malias)]
            else:
                model = ["named", rng.choice(["PHSP", "VSS", "HELAMP", "SSD_CP", "SVS"]), gen.rand_params(rng, defined + ["undefined_w", "zz"]) if rng.random() < 0.7 else None]
            lines.append([rng.choice(gen.BF_CHOICES), [rng.choice(pool) for _ in range(rng.randint(1, 3))], rng.random() < 0.2, model])
        blocks.append(["decay", m, lines])
    extra = []
    if rng.random() < 0.4:
        extra.append(["copydecay", "CopyOf", rng.choice(mothers)])
    if rng.random() < 0.4:
        extra.append(["chargeconj", rng.choice(mothers), "ConjOf"])
        extra.append(["cdecay", "ConjOf"])
    doc = defs + mas + blocks + extra
    # definitions before, between and after the blocks that use them; their mutual order is kept per name by a stable shuffle
    keyed = [(rng.random(), i, s) for i, s in enumerate(doc)]
    order = sorted(keyed, key=lambda t: t[0])
    out = [s for _, _, s in order]
    # restore the relative order of definitions of the same name (last one must stay last)
    for kind in ("define", "model_alias"):
        idx = [i for i, s in enumerate(out) if s[0] == kind]
        orig = [s for s in doc if s[0] == kind]
        for i, s in zip(idx, orig):
            out[i] = s
    return out, defined, malias


def run(ctx):
    from decaylanguage import DecFileParser

    tier, seed = ctx["tier"], ctx["seed"]
    rng = rng_for(seed, "c05")
    res = Result("generated files with 0..5 Define and 0..4 ModelAlias statements placed anywhere, each used 0..k times within and "
                 "across blocks (also in copied and conjugated tables), aliases whose parameters are Define'd names, redefinitions, "
                 "-name; the tables of the text and of its expansion are compared; non-trivial = distinct text that uses a definition twice")
    batch = Batch(ctx["driver_ok"])
    n_docs = 300 if tier == "quick" else 3000

    def tables_of(text):
        p = DecFileParser.from_string(text)
        p.parse()
        return impl_tables(p)

    def one(doc, label):
        text = render_doc(doc)
        exp = expand_doc(doc)
        text2 = render_doc(exp)
        case = {"kind": "expansion", "label": label, "text": text, "expanded": text2}
        try:
            a = tables_of(text)
        except Exception as e:
            fk = "F1" if "subscriptable" in str(e) else None
            res.violation(f"parse() of the text raised {type(e).__name__}: {str(e)[:100]}", case, clause="use of a definition", finding_key=fk)
            res.case()
            return
        try:
            b = tables_of(text2)
        except Exception as e:
            res.skipped += 1
            return
        if a != b:
            res.violation("the text and its expansion give different decay tables", case, impl=a, model=b, clause="Define / ModelAlias mean their expansion")
        uses = {}
        for s in doc:
            if s[0] == "decay":
                for l in s[2]:
                    if l[3][0] == "alias":
                        uses[l[3][1]] = uses.get(l[3][1], 0) + 1
                    elif l[3][2]:
                        for k, v in l[3][2]:
                            if k == "word":
                                uses[v.lstrip("-")] = uses.get(v.lstrip("-"), 0) + 1
        nt = canon_json(text) if any(v >= 2 for v in uses.values()) else None
        res.case(nt, {"text": text[:500]} if nt and len(res.samples) < 3 else None)
        res.count("docs")
        wire = conv_tree(raw_parse(text))

        def on(ans, case=case, a=a):
            if ans is None:
                return
            if ans[0] != "ok":
                res.violation("model refuses the text", case, model=ans, clause="model tie")
                return
            if model_tables(ans[1]) != a:
                res.violation("decay tables differ from the model", case, impl=a, model=model_tables(ans[1]), clause="model tie: tables")

        batch.add(["tables", [True], wire], on)
        # the substitution the theorems C05_expand* are about (`substDoc`, definitions dropped) is the expansion used here
        try:
            wire2 = dec(enc(conv_tree(raw_parse(text2))))
        except Exception:
            wire2 = None

        def on2(ans, case=case, wire2=wire2):
            if ans is None or wire2 is None:
                return
            res.count("subst_compared")
            if ans[0] != "ok":
                res.violation("model refuses the text", case, model=ans, clause="model tie")
            elif ans[1][1] != wire2:
                res.violation("the model's substitution (substDoc) is not the textual expansion", case, impl=wire2, model=ans[1][1],
                              clause="model tie: substitution")
            elif ans[1][0] != "T":
                res.count("subst_alias_of_alias")

        batch.add(["subst", wire], on2)

    for fname, c in load_corpus("C05"):
        one(c["doc"], "corpus:" + fname)
    def revalued(doc):
        """the same file with other values for its Define statements: read right after the original in the same process"""
        out = []
        for st in doc:
            if st[0] == "define":
                st = ["define", st[1], rng.choice([x for x in gen.NUM_FORMS if x != st[2]])]
            out.append(st)
        return out

    import os
    import tempfile

    tmpd = tempfile.mkdtemp(prefix="verif_c05_")
    nfile = [0]

    def three_files(doc):
        """a common file, a user file re-defining some of its names, the common file named again: the last definition of a name
        is the one in the file read last, so the tables are those of the expansion of common + user + common"""
        user = [st for st in revalued(doc) if st[0] == "define"]
        for st in doc:
            if st[0] == "model_alias" and st[2][0] == "named" and rng.random() < 0.5:
                user.append(["model_alias", st[1], ["named", st[2][1], (st[2][2] or []) + [["num", "-1"]]]])
        if not user:
            return
        nfile[0] += 1
        fa, fb = os.path.join(tmpd, f"common{nfile[0]}.dec"), os.path.join(tmpd, f"user{nfile[0]}.dec")
        # a lone `End` line somewhere between the statements of a file (files joined with cat): the line is dropped, what follows
        # it is read as ever
        k = rng.randint(1, max(1, len(doc) - 1))
        open(fa, "w").write(render_doc(doc[:k]) + rng.choice(["End\n", "End\n", "  End # common part\n", ""]) + render_doc(doc[k:]))
        open(fb, "w").write(rng.choice(["End\n", ""]) + render_doc(user) + rng.choice(["End\n", "End", ""]))
        text3 = render_doc(expand_doc(doc + user + doc))
        case = {"kind": "expansion", "label": "three files: common, user, common", "files": [render_doc(doc), render_doc(user)], "expanded": text3}
        try:
            q = DecFileParser(fa, fb, fa if nfile[0] % 2 else os.path.join(tmpd, ".", os.path.basename(fa)))
            q.parse()
            a = impl_tables(q)
            defs = q.dict_definitions()
            b = tables_of(text3)
        except Exception as e:
            res.skipped += 1
            return
        last = {}
        for st in doc + user + doc:
            if st[0] == "define":
                last[st[1]] = float(st[2])
        res.case()
        res.count("three_file_inputs")
        if a != b:
            res.violation("the text (given as files, one of them named twice) and its expansion give different decay tables", case, impl=a, model=b,
                          clause="Define / ModelAlias mean their expansion")
        elif canon_json(defs) != canon_json(last):
            res.violation("dict_definitions() is not the last definition of each name", case, impl=defs, model=last, clause="last definition wins")

    for i in range(n_docs):
        doc, _, _ = gen_c05(rng)
        one(doc, "generated")
        if i % 4 == 1:
            three_files(doc)
        if i % 3 == 0 and any(st[0] == "define" for st in doc):
            one(revalued(doc), "generated:revalued")
            res.count("revalued")
    batch.run()
    import shutil
    shutil.rmtree(tmpd, ignore_errors=True)
    return res.done()
