"""
Shared pieces of the correspondence harness: S-expression codec, the Lean driver process,
conversion of the real parse tree into statements, canonicalisation helpers.
Runs under /venv/bin/python (decaylanguage is installed there in editable mode from /repo/src).
"""
from __future__ import annotations

import hashlib
import json
import os
import random
import subprocess
import sys
import warnings
from fractions import Fraction

VERIF = os.path.dirname(os.path.dirname(os.path.abspath(__file__)))
LEAN_DIR = os.path.join(VERIF, "lean")
DRIVER = os.path.join(LEAN_DIR, ".lake", "build", "bin", "dldriver")
REPO = os.environ.get("VERIF_REPO", "/repo")

warnings.simplefilter("ignore")


# ----------------------------------------------------------------------------- s-expressions
def _esc(s: str) -> str:
    return (
        s.replace("\\", "\\\\").replace('"', '\\"').replace("\n", "\\n").replace("\t", "\\t").replace("\r", "\\r")
    )


def enc(x) -> str:
    """python value -> s-expression text.  str -> atom, bool -> T/F, int -> atom, list/tuple -> list, None -> N"""
    if x is None:
        return '"N"'
    if x is True:
        return '"T"'
    if x is False:
        return '"F"'
    if isinstance(x, str):
        return '"' + _esc(x) + '"'
    if isinstance(x, int):
        return '"' + str(x) + '"'
    if isinstance(x, Fraction):
        return '"' + f"{x.numerator}/{x.denominator}" + '"'
    if isinstance(x, (list, tuple)):
        return "(" + " ".join(enc(i) for i in x) + ")"
    raise TypeError(f"cannot encode {type(x)}")


def dec(s: str):
    """s-expression text -> nested lists of str"""
    pos = 0
    n = len(s)

    def skip():
        nonlocal pos
        while pos < n and s[pos] in " \t\r\n":
            pos += 1

    def one():
        nonlocal pos
        skip()
        if pos >= n:
            raise ValueError("eof")
        c = s[pos]
        if c == "(":
            pos += 1
            out = []
            while True:
                skip()
                if pos >= n:
                    raise ValueError("eof in list")
                if s[pos] == ")":
                    pos += 1
                    return out
                out.append(one())
        if c == '"':
            pos += 1
            buf = []
            while True:
                c = s[pos]
                if c == '"':
                    pos += 1
                    return "".join(buf)
                if c == "\\":
                    d = s[pos + 1]
                    buf.append({"n": "\n", "t": "\t", "r": "\r"}.get(d, d))
                    pos += 2
                else:
                    buf.append(c)
                    pos += 1
        start = pos
        while pos < n and s[pos] not in ' \t\r\n()"':
            pos += 1
        return s[start:pos]

    return one()


class DriverError(RuntimeError):
    pass


def run_driver(ops: list) -> list:
    """run the native model driver on a batch of operations; returns decoded answers"""
    if not os.path.exists(DRIVER):
        raise DriverError(f"driver not built: {DRIVER}")
    text = "\n".join(enc(op) for op in ops) + "\n"
    p = subprocess.run([DRIVER], input=text.encode("utf-8"), capture_output=True, timeout=3600)
    if p.returncode != 0:
        raise DriverError(f"driver exit {p.returncode}: {p.stderr.decode()[:500]}")
    lines = p.stdout.decode("utf-8").split("\n")
    if lines and lines[-1] == "":
        lines.pop()
    if len(lines) != len(ops):
        raise DriverError(f"driver answered {len(lines)} lines for {len(ops)} operations")
    return [dec(l) for l in lines]


def frac(txt: str) -> Fraction:
    if "/" in txt:
        a, b = txt.split("/")
        return Fraction(int(a), int(b))
    return Fraction(int(txt))


def fl(txt: str) -> float:
    """the double nearest to an exact rational sent by the model"""
    q = frac(txt)
    return q.numerator / q.denominator


# ----------------------------------------------------------------------------- parse tree -> statements
def _tok(x):
    return str(x)


def conv_model(t):
    from lark import Tree

    ch = t.children
    if ch and isinstance(ch[0], Tree) and ch[0].data == "model_label":
        return ["alias", _tok(ch[0].children[0])]
    name = _tok(ch[0])
    if len(ch) > 1:
        o = []
        for c in ch[1].children:
            if isinstance(c, Tree):
                o.append(["num", _tok(c.children[0])])
            else:
                o.append(["word", _tok(c)])
        return ["named", name, o]
    return ["named", name, None]


def conv_tree(tree):
    """Lark parse tree of decfile.lark (before dec.py touches it) -> list of statements in wire form"""
    out = []
    for t in tree.children:
        d = t.data
        c = t.children
        if d == "pythia_def":
            v = c[3]
            out.append(["pythia", _tok(c[0]), _tok(c[1]), _tok(c[2]), ["num" if v.type == "SIGNED_NUMBER" else "word", _tok(v)]])
        elif d == "jetset_def":
            out.append(["jetset", _tok(c[0]), _tok(c[1])])
        elif d == "ls_def":
            out.append(["ls_def", _tok(c[0]), _tok(c[1])])
        elif d == "inc_factor":
            out.append(["inc_factor", _tok(c[0]), _tok(c[1]), _tok(c[2]) == "yes"])
        elif d == "setlsbw":
            out.append(["setlsbw", _tok(c[0]), _tok(c[1])])
        elif d == "setlspw":
            out.append(["setlspw"] + [_tok(x) for x in c])
        elif d == "cdecay":
            out.append(["cdecay", _tok(c[0])])
        elif d == "define":
            out.append(["define", _tok(c[0]), _tok(c[1])])
        elif d == "particle_def":
            out.append(["particle_def", _tok(c[0]), _tok(c[1]), [_tok(c[2])] if len(c) > 2 else None])
        elif d == "alias":
            out.append(["alias", _tok(c[0]), _tok(c[1])])
        elif d == "chargeconj":
            out.append(["chargeconj", _tok(c[0]), _tok(c[1])])
        elif d == "changemasslimit":
            out.append(["changemasslimit", _tok(c[0]), _tok(c[1]), _tok(c[2])])
        elif d == "global_photos":
            out.append(["global_photos", c[0].data == "yes"])
        elif d == "copydecay":
            out.append(["copydecay", _tok(c[0].children[0]), _tok(c[1].children[0])])
        elif d == "model_alias":
            out.append(["model_alias", _tok(c[0].children[0]), conv_model(c[1])])
        elif d == "decay":
            lines = []
            for ln in c[1:]:
                bf = _tok(ln.children[0].children[0])
                parts = []
                photos = False
                model = None
                for x in ln.children[1:]:
                    if x.data == "particle":
                        parts.append(_tok(x.children[0]))
                    elif x.data == "photos":
                        photos = True
                    elif x.data == "model":
                        model = conv_model(x)
                lines.append([bf, parts, photos, model])
            out.append(["decay", _tok(c[0].children[0]), lines])
        else:
            raise RuntimeError(f"unknown statement {d}")
    return out


_LARK_CACHE = {}


def raw_parse(text: str, extra_models=()):
    """the Lark tree exactly as DecFileParser.parse() obtains it, untouched by dec.py"""
    from lark import Lark

    from decaylanguage import DecFileParser

    key = tuple(extra_models)
    if key not in _LARK_CACHE:
        p = DecFileParser.from_string("")
        if extra_models:
            p.load_additional_decay_models(*extra_models)
        opts = p.grammar_info()
        _LARK_CACHE[key] = Lark(p.grammar(), parser=opts["parser"], lexer=opts["lexer"], edit_terminals=opts["edit_terminals"])
    return _LARK_CACHE[key].parse(text)


# ----------------------------------------------------------------------------- rendering statements as text
def render_model(m) -> str:
    if m[0] == "alias":
        return m[1] + ";"
    s = m[1]
    if m[2] is not None:
        s += " " + " ".join(p[1] for p in m[2])
    return s + ";"


def render_stmt(st) -> str:
    k = st[0]
    if k == "define":
        return f"Define {st[1]} {st[2]}"
    if k == "particle_def":
        return f"Particle {st[1]} {st[2]}" + (f" {st[3][0]}" if st[3] else "")
    if k == "pythia":
        return f"{st[1]} {st[2]}:{st[3]} = {st[4][1]}"
    if k == "jetset":
        return f"JetSetPar {st[1]}={st[2]}"
    if k == "ls_def":
        return f"{st[1]} {st[2]}"
    if k == "inc_factor":
        return f"{st[1]} {st[2]} {'yes' if st[3] else 'no'}"
    if k == "setlsbw":
        return f"BlattWeisskopf {st[1]} {st[2]}"
    if k == "setlspw":
        return f"SetLineshapePW {st[1]} {st[2]} {st[3]} {st[4]}"
    if k == "cdecay":
        return f"CDecay {st[1]}"
    if k == "alias":
        return f"Alias {st[1]} {st[2]}"
    if k == "chargeconj":
        return f"ChargeConj {st[1]} {st[2]}"
    if k == "changemasslimit":
        return f"{st[1]} {st[2]} {st[3]}"
    if k == "global_photos":
        return "yesPhotos" if st[1] else "noPhotos"
    if k == "copydecay":
        return f"CopyDecay {st[1]} {st[2]}"
    if k == "model_alias":
        return f"ModelAlias {st[1]} {render_model(st[2])}"
    if k == "decay":
        lines = [f"Decay {st[1]}"]
        for bf, ds, photos, model in st[2]:
            lines.append("  " + " ".join([bf] + ds + (["PHOTOS"] if photos else []) + [render_model(model)]))
        lines.append("Enddecay")
        return "\n".join(lines)
    raise ValueError(k)


def render_doc(doc) -> str:
    return "\n".join(render_stmt(s) for s in doc) + "\n"


# ----------------------------------------------------------------------------- misc
def rng_for(seed: int, label: str) -> random.Random:
    return random.Random(f"{seed}:{label}")


_PARSE_FORMS = [0]


def parse_with(p, cc) -> str:
    """call `parse` with charge-conjugate decays enabled (cc true) or disabled, rotating over every way of writing that call that
    is legal on the unchanged tree (keyword, positional, the falsy / truthy spellings); returns the form used"""
    _PARSE_FORMS[0] += 1
    k = _PARSE_FORMS[0]
    if cc:
        forms = [("parse()", lambda: p.parse()), ("parse(include_ccdecays=True)", lambda: p.parse(include_ccdecays=True)),
                 ("parse(True)", lambda: p.parse(True))]
    else:
        forms = [("parse(include_ccdecays=False)", lambda: p.parse(include_ccdecays=False)), ("parse(False)", lambda: p.parse(False)),
                 ("parse(0)", lambda: p.parse(0)), ("parse(None)", lambda: p.parse(None))]
    name, fn = forms[k % len(forms)]
    fn()
    return name


def canon_json(x) -> str:
    return json.dumps(x, sort_keys=True, separators=(",", ":"))


def err_class(e: BaseException) -> str:
    """map exceptions of the real code to the small enum the model uses"""
    n = type(e).__name__
    if n == "VisitError" and getattr(e, "orig_exc", None) is not None:
        n = type(e.orig_exc).__name__
    return {
        "DecayNotFound": "DecayNotFound",
        "UnexpectedCharacters": "ParseError",
        "UnexpectedToken": "ParseError",
        "UnexpectedEOF": "ParseError",
        "UnexpectedInput": "ParseError",
        "ValueError": "ValueError",
        "RuntimeError": "RuntimeError",
        "ZeroDivisionError": "ZeroDivisionError",
    }.get(n, "Other:" + n)


# ----------------------------------------------------------------------------- result bookkeeping
class Result:
    def __init__(self, rule: str):
        self.rule = rule
        self.evaluations = 0
        self.nontrivial = set()
        self.samples = []
        self.violations = []
        self.distribution = {}
        self.skipped = 0

    def count(self, key: str, n: int = 1):
        self.distribution[key] = self.distribution.get(key, 0) + n

    def case(self, nontrivial_key=None, sample=None):
        self.evaluations += 1
        if nontrivial_key is not None:
            # only the number of distinct keys is reported: keep a short digest (thorough runs see millions of cases)
            self.nontrivial.add(hashlib.blake2b(nontrivial_key.encode("utf-8", "replace"), digest_size=12).digest()
                                if isinstance(nontrivial_key, str) and len(nontrivial_key) > 24 else nontrivial_key)
        if sample is not None and len(self.samples) < 5:
            self.samples.append(sample)

    def stricter(self, what: str, case, impl=None, model=None, clause=None):
        """a difference on a tie that is STRICTER than anything the property or a theorem needs (the exact spacing of emitted code,
        compared in addition to its structure): recorded in the evidence, never an alarm by itself"""
        store = self.__dict__.setdefault("_stricter", [])
        self.count("stricter_tie_differences")
        if len(store) < 5:
            store.append({"what": what, "clause": clause, "input": case, "implementation": impl, "model": model})

    def violation(self, what: str, case, impl=None, model=None, finding_key=None, clause=None, tie_only=False):
        """tie_only: a disagreement between model and code on an observable the property does NOT determine (the exact text of
        emitted code, how a malformed text is refused ...).  It means the correspondence no longer checks, not that the property
        fails on this input: alone, it is reported as `no-failing-input-found` after a deeper search."""
        if len(self.violations) < 400:
            self.violations.append({"what": what, "clause": clause, "input": case, "implementation": impl, "model": model,
                                    "finding_key": finding_key, "tie_only": bool(tie_only)})

    def remember(self, case, thunk, value, clause="independence of the call history", limit=120):
        """register a call for the replay pass: `thunk()` made again at the end of the run, after all the other calls of this
        run and in reverse order, must give `value` again (the model is a pure function of the input: an answer that depends
        on what else the process has done is a disagreement with it)"""
        self._remember_n = getattr(self, "_remember_n", 0) + 1
        store = self.__dict__.setdefault("_remembered", [])
        if len(store) < limit:
            store.append((case, thunk, value, clause))
        else:
            # reservoir: keep the store a uniform sample of everything offered (deterministic)
            j = (self._remember_n * 2654435761) % self._remember_n
            if j < limit:
                store[j] = (case, thunk, value, clause)

    def replay(self):
        for case, thunk, value, clause in reversed(self.__dict__.get("_remembered", [])):
            try:
                again = thunk()
            except Exception as e:     # noqa: BLE001
                again = "raised " + err_class(e)
            self.count("replayed_calls")
            if canon_json(again) != canon_json(value):
                self.violation("the same call made again at the end of the run (after the other calls, in reverse order) gives a different answer",
                               {"replayed": case}, impl=again, model=value, clause=clause)

    def done(self) -> dict:
        self.replay()
        # smallest failing input first: it is the one reported and stored as replay
        self.violations.sort(key=lambda v: len(json.dumps(v.get("input"), default=str)))
        if self.__dict__.get("_stricter"):
            self.distribution["stricter_tie_first_differences"] = self._stricter
        return {"evaluations": self.evaluations, "distinct_nontrivial": len(self.nontrivial), "rule": self.rule,
                "samples": self.samples, "violations": self.violations, "distribution": self.distribution,
                "skipped": self.skipped}


class Batch:
    """collect driver operations with continuations, run them in one driver process"""

    def __init__(self, driver_ok: bool = True):
        self.ops = []
        self.conts = []
        self.driver_ok = driver_ok

    FLUSH_AT = 20000

    def add(self, op, cont):
        self.ops.append(op)
        self.conts.append(cont)
        if len(self.ops) >= self.FLUSH_AT:
            # long runs: answer what has been collected so far (keeps the memory of a thorough run bounded)
            self.run()

    def run(self):
        if not self.ops:
            return
        if not self.driver_ok:
            conts, self.ops, self.conts = self.conts, [], []
            for c in conts:
                c(None)
            return
        ops, conts, self.ops, self.conts = self.ops, self.conts, [], []
        answers = run_driver(ops)
        for op, a in zip(ops, answers):
            if isinstance(a, list) and a and a[0] == "bad-op":
                # the driver does not know the operation / cannot decode it: harness and driver are out of step (infrastructure)
                raise DriverError(f"driver answered bad-op for operation {op[0]!r}: {a}")
        for a, c in zip(answers, conts):
            c(a)
        if self.ops:
            # operations added by the continuations themselves
            self.run()


def load_corpus(pid: str):
    d = os.path.join(VERIF, "corpus", pid)
    out = []
    if os.path.isdir(d):
        for f in sorted(os.listdir(d)):
            if f.endswith(".json"):
                with open(os.path.join(d, f)) as fh:
                    out.append((f, json.load(fh)))
    return out
