"""Which theorems, harness module and trusted base belong to which property."""

TRUSTED_BASE = [
    "Lean 4.33.0 kernel (thorough tier: re-checked with leanchecker)",
    "axioms: at most propext, Classical.choice, Quot.sound (audited with #print axioms on every run)",
    "the statements in lean/DL/Props/*.lean express the property (human reading)",
    "translator/extract.py writes the tables that are in the source (ast / Lark's own loader)",
    "harness: operation encoding, canonicalisation, S-expression codec, Fraction<->float conversion",
    "modelled, tied by sampled behaviour only: Lark LALR engine and contextual lexer, CPython float/sorted/dict/re/deepcopy, "
    "pandas, graphviz, numpy, the `particle` package",
]

PROPS = {
    "C11": {
        "harness": "c11",
        "theorems": ["DL.C11_mode", "DL.C11_mode_dict", "DL.C11_mode_needs_keys", "DL.C11_daughters_order",
                     "DL.C11_daughters_count", "DL.C11_daughters_len", "DL.C11_daughters_canonical",
                     "DL.C11_daughters_string", "DL.C11_daughters_counts", "DL.C11_daughters_counts_drop"],
        "partial": ["chain <-> dictionary round trip (C11_chain) is not yet a theorem: it is carried by the model tie "
                    "(to_dict / from_dict of the code against the executable model) and the direct round-trip predicate"],
        "assumptions": ["metadata keys are not bf, fs, daughters (the constructor's own parameter names)",
                        "model_params None and '' are the same value (to_dict normalises)"],
    },
    "C12": {
        "harness": "c12",
        "theorems": ["DL.C12_flatten", "DL.C12_order", "DL.C12_mother_not_stable"],
        "partial": ["termination of the loop for acyclic chains (existence of enough fuel) is not yet a theorem: C12_flatten is "
                    "partial correctness (whenever the loop ends); float rounding is outside the model (exact rationals; "
                    "floats compared to 1e-12 in the harness)",
                    "'leaves the original chain unchanged' is a runtime aliasing clause: checked by the harness snapshot"],
        "assumptions": ["branching fractions form a commutative monoid (exact arithmetic)"],
    },
    "C09": {
        "harness": "c09",
        "theorems": ["DL.C09_spec", "DL.C09_unique", "DL.C09_notfound", "DL.C09_found", "DL.isUnfold_unique"],
        "partial": ["existence of enough fuel for acyclic tables (termination) is not yet a theorem: C09_spec is about every "
                    "successful build"],
        "assumptions": ["Python recursion is modelled by a fuel argument (64 in the driver)"],
    },
    "C10": {
        "harness": "c10",
        "theorems": ["DL.C10_count", "DL.C10_count_formula", "DL.C10_alias", "DL.pathCount_eq_zero", "DL.expand_length"],
        "partial": ["'each choice exactly once, spelled out' is carried by the correspondence with an independent enumerator of "
                    "choices in the harness; the Lean theorems give the count and the alias clause"],
        "assumptions": [],
    },
    "C13": {
        "harness": "c13",
        "theorems": ["DL.C13_render", "DL.C13_canonical", "DL.C13_canonical_perm", "DL.expand_single"],
        "partial": ["read-back by bracket matching (C13_readback, injectivity) is not yet a Lean theorem: the harness reads every "
                    "real descriptor back with a bracket reader and compares with the tree"],
        "assumptions": ["rendering is modelled for patterns whose fields carry no conversion or format spec"],
    },
    "C14": {
        "harness": "c14",
        "theorems": ["DL.C14_refine_step", "DL.C14_refine", "DL.C14_from_init", "DL.C14_stack_restores", "DL.C14_set_invalid",
                     "DL.C14_enter_invalid", "DL.C14_valid_iff"],
        "partial": [],
        "assumptions": ["leaving normally and leaving by an exception are the same operation (the code's __exit__ ignores its arguments); "
                        "the harness passes real exception triples", "string.Formatter().parse is modelled (parsePat) and tied by a table of tricky patterns"],
    },
    "C15": {
        "harness": "c15",
        "theorems": ["DL.C15_bijection", "DL.C15_ids", "DL.C15_ids_across", "DL.C15_empty", "DL.C15_sources", "DL.iterChain_ok"],
        "partial": ["acceptance of the DOT text by Graphviz is runtime behaviour: the harness pipes graphs through `dot -Tsvg`",
                    "HTML naming of the cells and graphviz text emission are outside the model (parsed back by the harness)"],
        "assumptions": ["the process-wide counter is the only source of node numbers (the harness runs sessions with varied graph attributes)"],
    },
    "C16": {
        "harness": "c16",
        "theorems": ["DL.C16_rows", "DL.C16_order", "DL.C16_stable", "DL.C16_shape", "DL.C16_default", "DL.C16_normalize",
                     "DL.C16_largest", "DL.C16_scale", "DL.C16_refuse", "DL.C16_columns"],
        "partial": ["float rounding of bf/norm and the '%.7g' rendering are outside the theorems: the model formats the exact "
                    "quotient (fmtG7) and the harness compares the printed strings, skipping values within 1e-3 of a rounding tie",
                    "'printing never alters the stored values' is a runtime clause: checked by the harness snapshot"],
        "assumptions": ["exact rational arithmetic in the model"],
    },
    "C01": {"harness": "c01", "theorems": [], "partial": [], "assumptions": []},
    "C07": {"harness": "c07", "theorems": [], "partial": [], "assumptions": []},
    "C04": {"harness": "c04", "theorems": [], "partial": [], "assumptions": []},
    "C03": {"harness": "c03", "theorems": [], "partial": [], "assumptions": []},
    "C05": {"harness": "c05", "theorems": [], "partial": [], "assumptions": []},
    "C02": {"harness": "c02", "theorems": [], "partial": [], "assumptions": []},
    "C08": {"harness": "c08", "theorems": [], "partial": [], "assumptions": []},
    "C06": {"harness": "c06", "theorems": [], "partial": [], "assumptions": []},
}
