"""Which theorems, harness module and trusted base belong to which property."""

TRUSTED_BASE = [
    "Lean 4.33.0 kernel (thorough tier: re-checked with leanchecker)",
    "axioms: at most propext, Classical.choice, Quot.sound (audited with #print axioms on every run)",
    "the statements in lean/DL/Props/*.lean express the property (human reading)",
    "translator/extract.py writes the tables that are in the source (ast / Lark's own loader)",
    "harness: operation encoding, canonicalisation, S-expression codec, Fraction<->float conversion",
    "modelled, tied by sampled behaviour only: Lark LALR engine and contextual lexer, CPython float/sorted/dict/re/deepcopy, "
    "pandas, graphviz, numpy, the `particle` package",
]

PROPS = {
    "C11": {
        "harness": "c11",
        "theorems": ["DL.C11_mode", "DL.C11_mode_dict", "DL.C11_mode_needs_keys", "DL.C11_daughters_order",
                     "DL.C11_daughters_count", "DL.C11_daughters_len", "DL.C11_daughters_canonical",
                     "DL.C11_daughters_string", "DL.C11_daughters_counts", "DL.C11_daughters_counts_drop"],
        "partial": ["chain <-> dictionary round trip (C11_chain) is not yet a theorem: it is carried by the model tie "
                    "(to_dict / from_dict of the code against the executable model) and the direct round-trip predicate"],
        "assumptions": ["metadata keys are not bf, fs, daughters (the constructor's own parameter names)",
                        "model_params None and '' are the same value (to_dict normalises)"],
    },
}
