"""Which theorems, harness module and trusted base belong to which property."""

TRUSTED_BASE = [
    "Lean 4.33.0 kernel (thorough tier: re-checked with leanchecker)",
    "axioms: at most propext, Classical.choice, Quot.sound (audited with #print axioms on every run)",
    "the statements in lean/DL/Props/*.lean express the property (human reading)",
    "translator: extract.py writes the grammar tables Lark's own loader reads from the .lark files and the particle-name maps of the "
    "installed `particle` package; probe.py establishes the modelling-code tables (published model names, spin-factor table, reset "
    "policy of the readers, output sinks, coefficient suffixes) by the behaviour of the current source on probe inputs, in a fresh "
    "interpreter",
    "harness: operation encoding, canonicalisation, S-expression codec, Fraction<->float conversion",
    "modelled, tied by sampled behaviour only: Lark LALR engine and contextual lexer, CPython float/sorted/dict/re/deepcopy, "
    "pandas, graphviz, numpy, the `particle` package",
]

PROPS = {
    "C11": {
        "harness": "c11",
        "theorems": ["DL.C11_mode", "DL.C11_mode_dict", "DL.C11_mode_needs_keys", "DL.C11_daughters_order",
                     "DL.C11_daughters_count", "DL.C11_daughters_len", "DL.C11_daughters_canonical",
                     "DL.C11_daughters_string", "DL.C11_daughters_counts", "DL.C11_daughters_counts_drop",
                     "DL.C11_chain", "DL.C11_chain_reachable", "DL.chain_roundtrip",
                     "DL.C11_parser", "DL.C11_sortItems", "DL.C11_canon_level", "DL.C11_canon_eqv", "DL.C11_canon_idem",
                     "DL.C11_build_parserChain", "DL.C11_build_roundtrip"],
        "modules": ["DL.Props.C11Build"],
        "partial": ["C11_build_parserChain / C11_build_roundtrip: every chain the model of build_decay_chains(M, S) returns (M not in S) in which "
                    "each decaying particle has one line meets ParserChain, so C11_parser holds for it outright (composition with the C09 "
                    "unfolding specification and its uniqueness); that the model of build_decay_chains is the real one is C09's tie, and "
                    "the real dictionaries are converted on every run"],
        "assumptions": ["metadata keys are not bf, fs, daughters (the constructor's own parameter names)",
                        "model_params None and '' are the same value (to_dict normalises)"],
    },
    "C12": {
        "harness": "c12",
        "theorems": ["DL.C12_flatten", "DL.C12_order", "DL.C12_mother_not_stable", "DL.C12_terminates", "DL.hasEntries_of_keys",
                     "DL.floop_terminates", "DL.fpass_bound"],
        "partial": ["float rounding is outside the model (exact rationals / any commutative monoid; floats compared to 1e-12 in the harness)",
                    "'leaves the original chain unchanged' is a runtime aliasing clause: checked by the harness snapshot"],
        "assumptions": ["branching fractions form a commutative monoid (exact arithmetic)"],
    },
    "C09": {
        "harness": "c09",
        "theorems": ["DL.C09_spec", "DL.C09_unique", "DL.C09_notfound", "DL.C09_found", "DL.isUnfold_unique", "DL.C09_exists", "DL.C09_total"],
        "partial": [],
        "assumptions": ["Python recursion is modelled by a fuel argument (64 in the driver)"],
    },
    "C10": {
        "harness": "c10",
        "theorems": ["DL.C10_count", "DL.C10_count_formula", "DL.C10_alias", "DL.pathCount_eq_zero", "DL.expand_length",
                     "DL.C10_enum", "DL.C10_choices_complete", "DL.C10_choices_nodup", "DL.C10_choices_length", "DL.C10_isChoice_iff", "DL.C10_render_formula"],
        "partial": [],
        "assumptions": [],
    },
    "C13": {
        "harness": "c13",
        "theorems": ["DL.C13_render", "DL.C13_canonical", "DL.C13_canonical_perm", "DL.expand_single",
                     "DL.render_top", "DL.render_sub", "DL.splitTop_joinSp", "DL.C13_readback", "DL.C13_readback_toString",
                     "DL.C13_injective", "DL.C13_injective_labels", "DL.Shape.Equiv.sound"],
        "partial": ["read-back is proved for the default patterns; for user-chosen patterns the rendering theorem C13_render holds and the "
                    "harness compares real renderings with the model"],
        "assumptions": ["rendering is modelled for patterns whose fields carry no conversion or format spec"],
    },
    "C14": {
        "harness": "c14",
        "theorems": ["DL.C14_refine_step", "DL.C14_refine", "DL.C14_from_init", "DL.C14_stack_restores", "DL.C14_set_invalid",
                     "DL.C14_enter_invalid", "DL.C14_valid_iff"],
        "partial": [],
        "assumptions": ["leaving normally and leaving by an exception are the same operation (the code's __exit__ ignores its arguments); "
                        "the harness passes real exception triples", "string.Formatter().parse is modelled (parsePat) and tied by a table of tricky patterns"],
    },
    "C15": {
        "harness": "c15",
        "theorems": ["DL.C15_bijection", "DL.C15_ids", "DL.C15_ids_across", "DL.C15_empty", "DL.C15_sources", "DL.iterChain_ok",
                     "DL.C15_slots", "DL.C15_label_wellformed", "DL.C15_graph_labels", "DL.C15_ports", "DL.escape_textOK", "DL.escape_plain",
                     "DL.safeHtml_textOK"],
        "partial": ["acceptance of the DOT text by Graphviz is runtime behaviour: C15_label_wellformed / C15_graph_labels prove that every "
                    "node label is derivable in a subset of Graphviz's grammar of HTML-like labels (a table of >= 1 rows of >= 1 cells of "
                    "well-formed text) for names of any spelling, given well-formed HTML spellings in the particle table (oracle; every "
                    "spelling of the installed table is piped through `dot` on every run); the label text of every node is compared with "
                    "the model's on every run; the statement line syntax of the DOT file itself is written by the graphviz package and is "
                    "checked by piping graphs through `dot -Tsvg`"],
        "assumptions": ["the process-wide counter is the only source of node numbers (the harness runs sessions with varied graph attributes)"],
    },
    "C16": {
        "harness": "c16",
        "theorems": ["DL.C16_rows", "DL.C16_order", "DL.C16_stable", "DL.C16_shape", "DL.C16_default", "DL.C16_normalize",
                     "DL.C16_largest", "DL.C16_scale", "DL.C16_refuse", "DL.C16_columns", "DL.C16_sig7", "DL.C16_shown",
                     "DL.floorLog10_spec", "DL.roundHalfEven_spec", "DL.C16_value_read_back", "DL.C16_layout_exact",
                     "DL.renderSig7_value", "DL.fmtG7_value", "DL.C16_shown_value", "DL.C16_shown_monotone", "DL.shownVal_mono",
                     "DL.roundHalfEven_mono"],
        "partial": ["C16_sig7: the seven digits shown are a correct rounding of the exact quotient (10^6 <= n < 10^7, error at most half a unit "
                    "of the seventh digit; decimal exponent from digit counts, round half even); C16_layout_exact / C16_value_read_back: the "
                    "text they are laid out as (positional or scientific, trailing zeros dropped, optional minus) reads back as exactly "
                    "n*10^(e-6), so the value column denotes the stored scaled value up to half a unit of the seventh digit; the float "
                    "rounding of bf/norm (the model divides exactly) is outside the theorems: the harness compares the printed strings, "
                    "skipping values within 1e-3 of a rounding tie",
                    "'printing never alters the stored values' is a runtime clause: checked by the harness snapshot"],
        "assumptions": ["exact rational arithmetic in the model"],
    },
    "C01": {
        "harness": "c01",
        "theorems": ["DL.C01_mothers", "DL.C01_mother_names", "DL.C01_line", "DL.C01_param_num", "DL.C01_param_word", "DL.C01_numforms",
                     "DL.C01_alphabet", "DL.dedupLoop_eq", "DL.C01_text_tables", "DL.C01_text_mothers", "DL.C01_text_complete"],
        "modules": ["DL.Props.C01Text"],
        "partial": ["C01_text_* compose the statement-level theorems with the reader round trip (C02_read_layout_decay): from the TEXT, for "
                    "documents meeting StmtOK and layouts meeting GoodLayoutD; they are about the Lean reader (readDoc), which is tied to the "
                    "real LALR parser + contextual lexer on every generated text and every shipped file, not proved equal to it"],
        "assumptions": [],
    },
    "C07": {
        "harness": "c07",
        "theorems": ["DL.C07_aliases", "DL.C07_charge_conjugates", "DL.C07_decays2copy", "DL.C07_definitions", "DL.C07_model_aliases",
                     "DL.C07_alias_complete", "DL.C07_photos_absent", "DL.C07_photos_last", "DL.C07_cdecays", "DL.C07_lineshape_pw",
                     "DL.C07_lineshape_repeat", "DL.C07_lsdef_repeat", "DL.C07_lineshape_new", "DL.C07_position_free",
                     "DL.C07_width_given", "DL.C07_width_default", "DL.C07_width_unknown", "DL.dget_pairsToDict",
                     "DL.C07_jetset_int", "DL.C07_jetset_float", "DL.C07_pythia_num", "DL.C07_pythia_word", "DL.C02_text_any"],
        "modules": ["DL.Props.C01Text"],
        "partial": ["C02_text_any lifts every statement-level theorem to the text (for documents meeting StmtOK, layouts meeting GoodLayoutD); "
                    "reference widths come from the installed particle table "
                    "through the harness (exact value of the float, divided by 1000 in the model)"],
        "assumptions": [],
    },
    "C04": {
        "harness": "c04",
        "theorems": ["DL.C04_table", "DL.table_rows_ok", "DL.table_names_sorted", "DL.conjName_eq", "DL.C04_selfconj", "DL.C04_unknown", "DL.C04_unknown_pdg",
                     "DL.C04_daughters", "DL.C04_daughters_length", "DL.C04_daughters_count", "DL.C04_mode", "DL.C04_agree",
                     "DL.C04_pdg_table", "DL.C04_pdg_wrapped_names", "DL.pdg2evt_keysDistinct", "DL.evt2pdg_keysDistinct", "DL.conjRow_eq_none_iff"],
        "modules": ["DL.Props.C04Pdg"],
        "partial": ["C04_pdg_table is decided over the regenerated PDG-name maps (1014 + 807 entries): for every PDG name the answer is wrapped "
                    "exactly when the name has no conjugate row (208 names mapped to the placeholder 'unknown' and 38 listed names), and otherwise "
                    "is a PDG name, an involution, and agrees with the EvtGen route; that the regenerated maps are the installed package's is "
                    "the translator's job and is cross-checked by the exhaustive correspondence (all names, every run)"],
        "assumptions": ["the particle tables are the installed `particle` package's (environment), regenerated on every run"],
        "gen_obligations": ["table_rows_ok and table_sorted_adj are decided by the kernel over the regenerated 806-row table",
                            "gen_tableFacts (PDG-name maps: distinct keys, per-entry facts) is decided by the kernel over the regenerated maps"],
    },
    "C03": {
        "harness": "c03",
        "theorems": ["DL.C03_switch_off", "DL.C03_source_untouched", "DL.C03_precedence", "DL.C03_miss", "DL.C03_shape", "DL.C03_first_daughter",
                     "DL.C03_orientation", "DL.C03_database_rule", "DL.C03_unknown_marked", "DL.C03_selfconj",
                     "DL.matchCC_dset_cache", "DL.C03_cache", "DL.C03_table", "DL.C03_cache_defs", "DL.C03_tables",
                     "DL.gen_db_involutive", "DL.C03_cache_gen", "DL.C03_table_gen", "DL.C03_tables_gen"],
        "modules": ["DL.Props.C03Gen"],
        "partial": ["C03_table needs that no name met while conjugating is the wrapped form ChargeConj(p) of another one met (hwrap): a label "
                    "of that literal form is possible in the grammar but is outside the property's quantifier"],
        "assumptions": ["each name is the subject of at most one CDecay (the property's own quantifier)"],
    },
    "C05": {
        "harness": "c05",
        "theorems": ["DL.C05_last_define", "DL.C05_last_model_alias", "DL.C05_define_use", "DL.C05_define_minus", "DL.C05_define_expand",
                     "DL.C05_define_minus_expand", "DL.C05_verbatim", "DL.C05_alias_expand", "DL.C05_shared", "DL.C05_position_free",
                     "DL.C05_negLit", "DL.C05_define_text", "DL.C05_expand_dicts", "DL.C05_expand", "DL.C05_expand_noCC", "DL.C05_expand_tables",
                     "DL.C05_no_uses", "DL.C05_no_uses_bool", "DL.C05_all_named", "DL.C05_expand_standalone", "DL.C05_expand_dropDefs",
                     "DL.C05_expand_dropDefs_noCC", "DL.C05_expand_dropDefs_of_allNamed", "DL.C05_expand_subdict"],
        "partial": ["the whole-file theorems are at statement level (tables (substDoc d) = tables d, and with the definitions dropped under "
                    "usedAliasesOK); that substDoc is the textual expansion is checked on every generated text (driver op subst against the "
                    "harness's own expansion), and the real code is run on the text and on its expansion",
                    "sharing of one alias subtree between lines (finding F1) is runtime aliasing: covered by the harness and C08's object-graph audit"],
        "assumptions": [],
    },
    "C02": {
        "harness": "c02",
        "theorems": ["DL.C02_split", "DL.C02_bom", "DL.C02_crlf_file", "DL.C02_end_line", "DL.C02_end_dropped", "DL.skipWs_blanks",
                     "DL.takeNewline_lf", "DL.takeNewline_crlf", "DL.C02_crlf_token", "DL.takeNewline_comment", "DL.newlines0_lf",
                     "DL.skipIgnored_comment", "DL.C02_queries",
                     "DL.C02_read_simple_flat", "DL.C02_readNumber_show", "DL.C02_readNumber_show_end", "DL.C02_read_simple_num",
                     "DL.C02_read_layout_flat", "DL.C02_layout_flat", "DL.C02_read_layout_decay", "DL.C02_layout_decay",
                     "DL.C02_layout_queries", "DL.C02_exPlain", "DL.C02_exFancy", "DL.C02_exFancy_exPlain"],
        "partial": ["C02_read_layout_decay / C02_layout_decay / C02_layout_queries (the reader returns the document from every rendering, "
                    "hence two renderings of one document read alike and give the same tables) hold for documents meeting StmtOK and layouts "
                    "meeting GoodLayoutD (blank runs, comments, blank and comment lines, LF/CRLF, comma / line-wrapped parameter lists, doubled "
                    "semicolons, End line); outside those decidable hypotheses (e.g. a word parameter starting with a sign) the statement is "
                    "carried by the metamorphic correspondence. The model renders generated documents under seeded layouts and the real "
                    "parser reads that very text on every run (driver op render_layout); the reader model itself is tied to the real LALR "
                    "parser on every text of the run plus a malformed stream",
                    "byte-level decoding by open() is modelled on characters (decodeFile) and exercised with real files"],
        "assumptions": ["wrapping applies to a parameter list that has at least one item (a line end between a bare model name and its "
                        "semicolon yields an empty list [] instead of '' - both 'empty'; observed, outside the listed edits)"],
    },
    "C08": {
        "harness": "c08",
        "theorems": ["DL.C08_copy", "DL.C08_copy_prefix", "DL.C08_copy_miss", "DL.C08_copy_as_source", "DL.C08_pure", "DL.C08_reparse"],
        "partial": ["independence from the history of queries is structural in a functional model (C08_pure); its runtime content - CPython "
                    "object aliasing between tables, and queries mutating the parser - cannot be exhibited by the model and is carried by the "
                    "harness: history runs with in-place mutation compared with fresh instances after every step, and the object-graph audit"],
        "assumptions": [],
    },
    "C06": {
        "harness": "c06",
        "modules": ["DL.Props.C06Text"],
        "theorems": ["DL.C06_self", "DL.C06_extension", "DL.C06_merge", "DL.C06_published", "DL.C06_published_separators", "DL.C06_boundary",
                     "DL.C06_reject", "DL.firstMatch_self", "DL.firstMatch_word", "DL.C06_text", "DL.C06_text_needs"],
        "partial": ["C06_text: a decay line whose model word is a registered name is read with exactly that name from every rendering of the "
                    "line (any registered list, bare / with parameters / with PHOTOS, daughters extending model names), as an instance of the "
                    "reader round trip; it is about the Lean reader, in which MODEL_NAME is tried before LABEL in model position as Lark does; "
                    "that correspondence is tied exhaustively (every published name x contexts), not proved"],
        "assumptions": [],
        "gen_obligations": ["C06_published and C06_boundary are decided over the regenerated model list and grammar data"],
    },
    "C17": {
        "harness": "c17",
        "theorems": ["DL.C17_tables", "DL.C17_parameter_rows", "DL.C17_constant_rows", "DL.C17_option", "DL.C17_option_absent", "DL.C17_coupling",
                     "DL.C17_expand_node", "DL.C17_expand_combinations", "DL.C17_expand_leaf", "DL.C17_expand_replace", "DL.C17_policy", "DL.C17_read_simple", "DL.C17_read_layout", "DL.C17_layout_irrelevant", "DL.C17_readAmp_layout_mapM",
                     "DL.C17_readAmp_layout", "DL.C17_readAmp_simple", "DL.C17_exPlain", "DL.C17_exFancy", "DL.C17_exFancy_exPlain",
                     "DL.C17_text", "DL.C17_text_layout"],
        "partial": ["the reading of the options text into statements is modelled by the scannerless reader DL/Model/AmpRead.lean (readAmpText / readAmp) "
                    "and tied to Lark on the repository's grammar on every run (well-formed, malformed and fixed edge-case texts, accept/reject and "
                    "statements); C17_read_layout: that reader returns the statement list from every rendering under a good layout (blank runs, also "
                    "inside decay trees, comments, blank and comment lines, LF/CRLF, a last comment without line end) for statements meeting the "
                    "decidable AStmtOK; the model renders generated statement lists under seeded layouts and the real parser reads that very text "
                    "on every run (driver op amp_render_layout); the Lark engine itself is modelled, not verified",
                    "exp(i phase) is not modelled: couplings stay symbolic (interpretation flag + the two numerals); the harness compares the "
                    "complex numbers to 1e-12", "particle_from_string_name is an oracle parameter of the model (sent with each operation); which particle an AmpGen spelling denotes is compared with the pinned table pinned/ampgen_names.json (859 spellings observed on the unchanged tree) on every run"],
        "assumptions": ["fix flags are integers (AmpGen convention 0/1/2)"],
        "gen_obligations": ["C17_policy is decided over the reset policy regenerated from amplitudechain.py"],
    },
    "C18": {
        "harness": "c18",
        "theorems": ["DL.C18_perms", "DL.C18_perms_nodup", "DL.C18_perms_error", "DL.C18_count", "DL.C18_emit", "DL.C18_emit_sf_count",
                     "DL.C18_masses", "DL.C18_table_total"],
        "partial": ["the emitted text is parsed back by the harness (regular expressions); particle attributes (spin type, J, charm content, "
                    "programmatic name) are oracle inputs from the `particle` package"],
        "assumptions": [],
        "gen_obligations": ["C18_table_total is decided over known_spinfactors / SF_4Body regenerated from goofit.py"],
    },
    "C19": {
        "harness": "c19",
        "theorems": ["DL.C19_sinks", "DL.C19_returned_is_printed", "DL.runSinks_all_printer", "DL.C19_coeff_names", "DL.C19_distinct",
                     "DL.C19_declared", "DL.expandLines_nodes", "DL.C19_closed_cpp", "DL.C19_closed_py", "DL.C19_same_decls",
                     "DL.closedB_iff", "DL.Supported_iff"],
        "partial": ["C19_closed_cpp / C19_closed_py / C19_same_decls are about the declaration-use program of the model "
                    "(DL/Model/GooFitProg.lean: what make_intro / make_pars declare, what every lineshape kind uses, the coefficient variables), "
                    "for inputs meeting the decidable predicate Supported (resonances known and not final-state, spline constants present, "
                    "K-matrix rows present); the model program is compared with the declarations and uses extracted from both real outputs "
                    "on every run (driver op prog), including the closure verdict; numbers and layout of the emitted text are not modelled "
                    "and are compared between the two real outputs by the harness",
                    "that the Python output runs is checked by executing it against a recording stand-in for goofit (runtime)"],
        "assumptions": ["premise of the property: the file defines the parameters its lineshapes need; the K-matrix parameter the emitted code "
                        "calls sA_0 is the one whose programmatic name is sA_0, i.e. a line named sA0; the shipped model does not define it, "
                        "so for that file the symbol is pre-bound in the stand-in and exempt from the declared-before-use clause"],
        "gen_obligations": ["C19_sinks and C19_coeff_names are decided over data regenerated from ampgen2goofit.py and goofit.py"],
    },
    "C20": {
        "harness": "c20",
        "theorems": ["DL.C20_history", "DL.C20_policy", "DL.C20_sequence", "DL.C20_needs_reset"],
        "partial": ["hash-seed independence and exact reproducibility in a fresh process are runtime behaviour: subprocess sweep in the harness",
                    "the comparison ignores the timestamp line and the order of the declarations before the amplitude section"],
        "assumptions": ["'reproduces the text exactly in a fresh process' is taken under an equal hash seed (the summary header iterates over a set of strings)"],
        "gen_obligations": ["C20_policy is decided over the reset policy regenerated from the AST of amplitudechain.py"],
    },
}
