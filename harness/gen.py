"""Generators shared by the harness modules.  Every random choice comes from the `random.Random` given."""
from __future__ import annotations

import itertools
import random
from fractions import Fraction

_EVTGEN = None


def evtgen_names():
    global _EVTGEN
    if _EVTGEN is None:
        from particle.converters import EvtGenName2PDGIDBiMap

        _EVTGEN = [str(k) for k in EvtGenName2PDGIDBiMap._to_map.keys()]
    return _EVTGEN


ODD_NAMES = ["K_1(1270)+", "Upsilon(4S)", "f'_0", "anti-K*0", "X(3872)", "a_1(1260)-", "D*(2010)+", "Lambda_b0",
             "chi_c1", "B_s0", "anti-Xi_cc--", "K*_0(1430)0", "f_2'(1525)", "eta'", "psi(2S)", "h_c", "nu_tau",
             "rho(2S)+", "D'_s1+", "Xi'_c0", "p+", "anti-p-", "e+", "e-", "mu+", "gamma", "pi+", "pi-", "pi0",
             "K+", "K-", "K_S0", "K_L0", "x~1", "a/b", "q*q", "2pi", "1.0", "-3", "A.B", "(ab)", "'", "~", "_"]

SYNTH_CHARS = "abcdefghijklmnopqrstuvwxyzABCDEFGHIJKLMNOPQRSTUVWXYZ0123456789/-+*_().'~"


def name_pool(rng: random.Random, n: int, synthetic: float = 0.2) -> list[str]:
    """n distinct names: real EvtGen names, odd spellings, synthetic labels over the whole alphabet"""
    out = []
    seen = set()
    ev = evtgen_names()
    while len(out) < n:
        r = rng.random()
        if r < synthetic:
            k = rng.randint(1, 6)
            s = "".join(rng.choice(SYNTH_CHARS) for _ in range(k))
        elif r < synthetic + 0.3:
            s = rng.choice(ODD_NAMES)
        else:
            s = rng.choice(ev)
        if s not in seen:
            seen.add(s)
            out.append(s)
    return out


def json_value(rng: random.Random, depth: int = 0):
    r = rng.random()
    if depth > 2 or r < 0.5:
        return rng.choice([None, True, False, 0, 1, -7, 2019, 0.5, 1e-3, "", "toy", "PHSP", "a b", 'q"uote', "ünï"])
    if r < 0.75:
        return [json_value(rng, depth + 1) for _ in range(rng.randint(0, 3))]
    return {rng.choice(["B0", "k", "x y", "zfit", "n"]) + str(i): json_value(rng, depth + 1) for i in range(rng.randint(0, 3))}


def rand_bf(rng: random.Random, exact: bool):
    if exact:
        return Fraction(rng.randint(1, 999), rng.choice([1000, 997, 64, 3, 7, 1]))
    return rng.choice([1.0, 0.5, 0.1, 0.3, 0.0124, 0.98823, 0.692, 1e-5, 0.6770, 3.3392e-05, 0.25])


def rand_tree_spec(rng: random.Random, n_dec: int, max_items: int = 4, max_mult: int = 3, names=None, all_reachable=True):
    """a single acyclic chain: list of (name, daughters list) for n_dec decaying particles; the mother is the first.
    A decaying particle only has decaying daughters of a higher index, hence no cycle."""
    names = names or name_pool(rng, n_dec + 6)
    dec = names[:n_dec]
    stable = names[n_dec:]
    spec = []
    for i, d in enumerate(dec):
        ds = []
        n_items = rng.randint(0 if i > 0 and rng.random() < 0.1 else 1, max_items)
        for _ in range(n_items):
            if i + 1 < n_dec and rng.random() < 0.5:
                ds += [dec[rng.randint(i + 1, n_dec - 1)]] * rng.randint(1, max_mult if rng.random() < 0.3 else 1)
            else:
                ds += [rng.choice(stable)] * rng.randint(1, max_mult if rng.random() < 0.3 else 1)
        spec.append((d, ds))
    if all_reachable:
        # make sure every decaying particle is used by an earlier one
        for i in range(1, n_dec):
            if not any(dec[i] in ds for _, ds in spec[:i]):
                spec[rng.randint(0, i - 1)][1].append(dec[i])
    return spec


def all_small_tree_specs(max_dec: int, names_dec, names_stable, max_mult: int = 2):
    """exhaustive small shapes: every decaying particle i>0 is attached below one earlier particle, with a
    multiplicity, plus 0..1 stable daughters"""
    for n in range(1, max_dec + 1):
        parents = itertools.product(*[range(i) for i in range(1, n)])
        for par in parents:
            for mults in itertools.product(range(1, max_mult + 1), repeat=n - 1):
                for extra in itertools.product([0, 1], repeat=n):
                    spec = [[names_dec[i], []] for i in range(n)]
                    for i in range(1, n):
                        spec[par[i - 1]][1] += [names_dec[i]] * mults[i - 1]
                    for i in range(n):
                        spec[i][1] += [names_stable[i % len(names_stable)]] * (1 + extra[i])
                    yield [(a, b) for a, b in spec]


# ----------------------------------------------------------------------------- .dec documents
_MODELS = None


def known_models():
    global _MODELS
    if _MODELS is None:
        from decaylanguage.dec.enums import known_decay_models

        _MODELS = list(known_decay_models)
    return _MODELS


_WORD = set("abcdefghijklmnopqrstuvwxyzABCDEFGHIJKLMNOPQRSTUVWXYZ0123456789_")


def safe_label(name: str, extra_models=()) -> bool:
    """a label that is one LABEL token in daughter position and is not taken for a model name or PHOTOS"""
    if not name or name[0] in "0123456789.+-" or name == "PHOTOS":
        return False
    if any(c not in SYNTH_CHARS for c in name):
        return False
    for m in list(known_models()) + list(extra_models):
        if name.startswith(m) and (len(name) == len(m) or name[len(m)] not in _WORD):
            return False
    return True


def safe_names(rng: random.Random, n: int, synthetic: float = 0.15):
    out = []
    while len(out) < n:
        for s in name_pool(rng, n, synthetic):
            if safe_label(s) and s not in out:
                out.append(s)
    return out[:n]


MODEL_CHOICES = [
    ["named", "PHSP", None], ["named", "PHSP", None], ["named", "VSS", None], ["named", "SVS", None],
    ["named", "HELAMP", [["num", "1.0"], ["num", "0.0"], ["num", "-1.0"], ["num", "0.5"]]],
    ["named", "TAUHADNU", [["num", "-0.108"], ["num", "0.775"], ["num", "0.149"]]],
    ["named", "SSD_CP", [["num", "20.e12"], ["num", "0.1"], ["num", "1."], ["num", ".04"], ["num", "2E-4"], ["num", "+3"]]],
    ["named", "LbAmpGen", [["word", "DtoKpipipi_v1"]]],
    ["named", "VSP_PWAVE", None], ["named", "PI0_DALITZ", None], ["named", "ISGW2", None],
    ["named", "BTOXSGAMMA", [["num", "2"]]], ["named", "PYTHIA", [["num", "21"]]],
]

BF_CHOICES = ["1.0", "0.5", "0.25", "0.125", "1", "0.3", "0.0271", "0.0542", "1e-3", "2E-4", ".5", "1.", "0.98823", "0.6770",
              # a line with branching fraction zero is a line like any other
              "0", "0.000",
              # fractions with many digits, values next to a round one, rare modes
              "0.91234567891", "0.333333333333", "0.74999999964", "3.6e-10", "1.2E-12", "0.000000000437"]


def gen_tables(rng: random.Random, n_dec=None, max_lines=4, max_ds=4, aliases=True, empty_blocks=True, depth_bias=0.5, copies=True):
    """an acyclic set of decay tables as wire statements.  Returns (doc, info) with info = dict(dec=[names of
    particles with a Decay block], stable=[...], aliases={alias: name})"""
    n_dec = n_dec or rng.choice([1, 2, 3, 3, 4, 5, 6])
    names = safe_names(rng, n_dec + 5)
    dec = names[:n_dec]
    stable = names[n_dec:]
    alias = {}
    doc = []
    # alias targets come from a small pool so that several aliases of one particle, and an alias next to
    # the aliased particle itself (both with their own Decay block), do occur
    pool = [rng.choice(stable), rng.choice(dec), rng.choice([n for n in evtgen_names() if safe_label(n)][:50])]
    for i, d in enumerate(dec):
        if aliases and i > 0 and rng.random() < 0.4:
            target = rng.choice(pool)
            if target != d:
                alias[d] = target
    blocks = []
    for i, d in enumerate(dec):
        n_lines = rng.randint(0 if (empty_blocks and i > 0 and rng.random() < 0.15) else 1, max_lines)
        lines = []
        for _ in range(n_lines):
            ds = []
            for _ in range(rng.randint(0 if rng.random() < 0.05 else 1, max_ds)):
                if i + 1 < n_dec and rng.random() < depth_bias:
                    ds.append(dec[rng.randint(i + 1, n_dec - 1)])
                else:
                    ds.append(rng.choice(stable))
                if rng.random() < 0.2:
                    ds.append(ds[-1])
            lines.append([rng.choice(BF_CHOICES), ds, rng.random() < 0.2, rng.choice(MODEL_CHOICES)])
        blocks.append(["decay", d, lines])
    for a, t in alias.items():
        doc.append(["alias", a, t])
    extra = []
    if copies and n_dec >= 2 and rng.random() < 0.4:
        # tables that exist only through CopyDecay: NEW is a fresh name used as a daughter of an earlier particle, or a
        # particle that also has its own Decay block (then there are two tables of that name and the first one in
        # the list is the one every query and every chain uses).  OLD comes later in the order, so no cycle arises.
        for _ in range(rng.choice([1, 1, 2])):
            j = rng.randint(1, n_dec - 1)
            i = rng.randint(0, j - 1)
            if rng.random() < 0.5:
                new = f"Cpy{len(extra)}{names[0][:3]}"
                if not blocks[i][2]:
                    continue
                rng.choice(blocks[i][2])[1].append(new)
                dec = dec + [new]
            else:
                new = dec[i]
                if i > 0:
                    b = blocks[rng.randint(0, i - 1)]
                    if b[2]:
                        rng.choice(b[2])[1].append(new)
            extra.append(["copydecay", new, dec[j]])
    rng.shuffle(blocks) if rng.random() < 0.5 else None
    doc += blocks
    doc += extra
    if rng.random() < 0.3:
        rng.shuffle(doc)
    return doc, {"dec": dec, "stable": stable, "aliases": alias}


def gen_sigtag(rng: random.Random):
    """a signal / tag style file: several aliases of one particle and of its antiparticle, each pair matched by its own ChargeConj
    statement (either direction, any spelling), the Decay block on one side and a CDecay on the other, mothers whose lines use
    the aliases of both sides.  Returns (doc, mothers)"""
    pairs = [("D0", "anti-D0"), ("D+", "D-"), ("D*+", "D*-"), ("K*0", "anti-K*0"), ("D_s+", "D_s-"), ("Lambda_c+", "anti-Lambda_c-")]
    stable = ["K-", "K+", "pi+", "pi-", "pi0", "gamma", "e+", "nu_e", "K_S0"]
    styles = [lambda a, b, t: (f"My{a}_{t}", f"My{b}_{t}"), lambda a, b, t: (f"{a}{t}", f"{b}{t}"),
              lambda a, b, t: (f"{t}_X", f"{t}_Xbar"), lambda a, b, t: (f"My{a}{t}", f"MyAnti{a}{t}"),
              lambda a, b, t: (f"{t}A", f"{t}B")]
    doc = []
    alias_stmts = []
    cc_stmts = []
    blocks = []
    sides = []      # (alias of particle, alias of antiparticle)
    for a, b in rng.sample(pairs, rng.randint(1, 2)):
        tags = rng.sample(["sig", "tag", "1", "2", "other"], rng.randint(2, 3))
        style = rng.choice(styles)
        for t in tags:
            x, y = style(a, b, t) if rng.random() < 0.7 else rng.choice(styles)(a, b, t)
            if not (safe_label(x) and safe_label(y)) or any(x in s or y in s for s in sides):
                continue
            sides.append((x, y))
            alias_stmts.append(["alias", x, a])
            alias_stmts.append(["alias", y, b])
            cc_stmts.append(["chargeconj", x, y] if rng.random() < 0.6 else ["chargeconj", y, x])
            src, other = (x, y) if rng.random() < 0.7 else (y, x)
            lines = []
            for _ in range(rng.randint(1, 3)):
                lines.append([rng.choice(BF_CHOICES[:6]), [rng.choice(stable) for _ in range(rng.randint(2, 4))], False, ["named", "PHSP", None]])
            blocks.append(["decay", src, lines])
            blocks.append(["cdecay", other])
    if not sides:
        return gen_sigtag(rng)
    mothers = []
    for (ma, mb) in rng.sample([("B-", "B+"), ("B0", "anti-B0"), ("B_s0", "anti-B_s0")], rng.randint(1, 2)):
        x, y = f"{ma}sig", f"{mb}sig"
        alias_stmts += [["alias", x, ma], ["alias", y, mb]]
        cc_stmts.append(["chargeconj", x, y] if rng.random() < 0.5 else ["chargeconj", y, x])
        lines = []
        for _ in range(rng.randint(1, 3)):
            ds = [rng.choice(rng.choice(sides)) for _ in range(rng.randint(1, 2))] + [rng.choice(stable) for _ in range(rng.randint(0, 2))]
            lines.append([rng.choice(BF_CHOICES[:6]), ds, False, ["named", "PHSP", None]])
        blocks.append(["decay", x, lines])
        blocks.append(["cdecay", y])
        mothers += [x, y]
    rng.shuffle(alias_stmts) if rng.random() < 0.5 else None
    rng.shuffle(cc_stmts) if rng.random() < 0.5 else None
    doc = alias_stmts + cc_stmts + blocks
    if rng.random() < 0.3:
        # the ChargeConj statements between or after the blocks
        doc = alias_stmts + blocks + cc_stmts
    return doc, mothers + [s for pr in sides for s in pr]


# ----------------------------------------------------------------------------- full .dec documents
NUM_FORMS = ["1", "1.", ".5", "-0.8", "+3", "20.e12", "2E-4", "0.5", "1.0", "0", "-1", "3.14159", "1e-5", "0.507e12", "12", "-.25", "+1.5E+2"]
WORD_PARAMS = ["DtoKpipipi_v1", "x1", "dm", "beta", "Vub", "my_par", "fD", "a/b", "q(1)", "w'", "z~", "A*B",
               # words float() would accept although the grammar reads them as labels: they stay verbatim
               "inf", "nan", "Infinity", "NaN", "INF", "infinity", "e1"]


def rand_params(rng: random.Random, defined=(), max_n=6):
    """a model parameter list: numerals in every literal form, words, Define'd names, -name; obeying the lexing
    rules of the grammar (a word does not start like a number; no PHOTOS/model name right after a numeral)"""
    n = rng.randint(1, max_n)
    out = []
    for _ in range(n):
        r = rng.random()
        if r < 0.55:
            out.append(["num", rng.choice(NUM_FORMS)])
        elif r < 0.75 and defined:
            d = rng.choice(list(defined))
            r2 = rng.random()
            # NAME and -NAME are uses of the definition; +NAME is a word of its own (verbatim unless defined under that spelling)
            out.append(["word", ("-" + d) if r2 < 0.3 else ("+" + d) if (r2 < 0.4 and not d.startswith(("+", "-"))) else d])
        else:
            w = rng.choice(WORD_PARAMS)
            out.append(["word", ("-" + w) if rng.random() < 0.15 else w])
    return out


def rand_model(rng: random.Random, defined=(), aliases=(), all_models=False):
    if aliases and rng.random() < 0.3:
        return ["alias", rng.choice(list(aliases))]
    name = rng.choice(known_models()) if (all_models or rng.random() < 0.5) else rng.choice(["PHSP", "VSS", "HELAMP", "SVS", "VSS_BMIX", "SSD_CP"])
    return ["named", name, rand_params(rng, defined) if rng.random() < 0.5 else None]


def gen_doc(rng: random.Random, n_blocks=None, globals_p=0.5, cc=True, copies=True, model_aliases=True, defines=True,
            repeats=True, real_names=0.6):
    """a document over the whole statement language.  Returns (doc, info)"""
    n_blocks = n_blocks if n_blocks is not None else rng.randint(0, 8)
    ev = [n for n in evtgen_names() if safe_label(n)]
    pool = []
    while len(pool) < 14:
        c = rng.choice(ev) if rng.random() < real_names else rng.choice(safe_names(rng, 3, synthetic=0.6))
        if c not in pool:
            pool.append(c)
    ident = ["dm", "x1", "beta", "Vub", "my_par", "fD", "dGamma", "mass_B", "q2", "+eps"]
    defined = rng.sample(ident, rng.randint(0, 4)) if defines else []
    malias = rng.sample(["MyModel", "SLBKPOLE_DtoKlnu", "BMIX", "M2", "AliasX"], rng.randint(0, 3)) if model_aliases else []
    stmts = []
    for d in defined:
        for _ in range(1 if rng.random() < 0.8 else 2):   # redefinitions: the last one wins
            stmts.append(["define", d, rng.choice(NUM_FORMS)])
    for a in malias:
        for _ in range(1 if rng.random() < 0.85 else 2):
            stmts.append(["model_alias", a, ["named", rng.choice(["VSS_BMIX", "SLBKPOLE", "HELAMP", "PHSP", "ISGW2"]),
                                             rand_params(rng, defined) if rng.random() < 0.7 else None]])
    mothers = []
    blocks = []
    for b in range(n_blocks):
        if repeats and mothers and rng.random() < 0.2:
            m = rng.choice(mothers)
            if rng.random() < 0.4:
                # byte-identical repetition of an earlier block
                prev = [x for x in blocks if x[1] == m][0]
                blocks.append(["decay", m, [list(l) for l in prev[2]]])
                continue
        else:
            m = rng.choice(pool)
        mothers.append(m)
        lines = []
        for _ in range(0 if rng.random() < 0.06 else rng.randint(0 if rng.random() < 0.12 else 1, 5)):
            ds = [rng.choice(pool) for _ in range(rng.randint(0 if rng.random() < 0.05 else 1, 5))]
            lines.append([rng.choice(NUM_FORMS[:4] + BF_CHOICES), ds, rng.random() < 0.25, rand_model(rng, defined, malias, all_models=rng.random() < 0.5)])
        if repeats and lines and rng.random() < 0.15:
            # a line written twice, token for token (it is two lines of the table), next to each other or apart
            src = rng.choice(lines)
            lines.insert(rng.randint(0, len(lines)), [src[0], list(src[1]), src[2], src[3]])
        blocks.append(["decay", m, lines])
    stmts += blocks
    if cc:
        for _ in range(rng.randint(0, 3)):
            # aliases between any two names, and (half of the time, when possible) between two mothers: a name with its own
            # block - empty or not - that is also declared an alias of another particle with a block keeps its own table
            ms = list(dict.fromkeys(mothers))
            a, b = rng.sample(ms, 2) if len(ms) >= 2 and rng.random() < 0.5 else rng.sample(pool, 2)
            stmts.append(["alias", a, b])
        for _ in range(rng.randint(0, 2)):
            a, b = rng.sample(pool, 2)
            stmts.append(["chargeconj", a, b])
        used = set()
        for _ in range(rng.randint(0, 3)):
            x = rng.choice(pool + ["anti-" + p for p in pool[:2]])
            if x not in used and safe_label(x):
                used.add(x)
                stmts.append(["cdecay", x])
                if repeats and rng.random() < 0.2:
                    # the same CDecay statement given again (e.g. by a user file read after the main file)
                    stmts.append(["cdecay", x])
    if copies:
        for _ in range(rng.randint(0, 2)):
            new = rng.choice(pool + ["Copy1", "MyCopy"])
            old = rng.choice(mothers or pool)
            stmts.append(["copydecay", new, old])
    if rng.random() < globals_p:
        for _ in range(rng.randint(0, 6)):
            k = rng.choice(["particle_def", "pythia", "jetset", "ls_def", "inc_factor", "setlsbw", "setlspw", "changemasslimit", "global_photos"])
            n = rng.choice(pool)
            if k == "particle_def":
                stmts.append([k, n, rng.choice(["1.5", "0.13957", "5.279", "1"]), [rng.choice(["0.1", "1e-3", "0"])] if rng.random() < 0.6 else None])
            elif k == "pythia":
                stmts.append([k, rng.choice(["PythiaGenericParam", "PythiaAliasParam", "PythiaBothParam"]), rng.choice(["ParticleDecays", "StringZ", "A"]),
                              rng.choice(["mixB", "usePowerLaw", "b"]), rng.choice([["word", "off"], ["word", "on"], ["num", "0.5"], ["num", "1"], ["word", "inf"], ["word", "x9"]])])
            elif k == "jetset":
                stmts.append([k, f"{rng.choice(['PARJ', 'MSTJ', 'MSTU'])}({rng.randint(1, 99)})", rng.choice(["0.36", "12", "1", "-3", "2E-4", "+7", "07", "010", "-012", "00", "05.50", "0"])])
            elif k == "ls_def":
                stmts.append([k, rng.choice(["LSFLAT", "LSNONRELBW", "LSMANYDELTAFUNC"]), n])
            elif k == "inc_factor":
                stmts.append([k, rng.choice(["IncludeBirthFactor", "IncludeDecayFactor"]), n, rng.random() < 0.5])
            elif k == "setlsbw":
                stmts.append([k, n, rng.choice(["0.0", "3.0", "1"])])
            elif k == "setlspw":
                stmts.append([k, n, rng.choice(pool), rng.choice(pool), str(rng.randint(0, 3))])
            elif k == "changemasslimit":
                stmts.append([k, rng.choice(["ChangeMassMin", "ChangeMassMax"]), n, rng.choice(["1.1", "0.5", "2"])])
            else:
                stmts.append([k, rng.random() < 0.5])
    # position: definitions may be anywhere relative to the blocks
    if rng.random() < 0.7:
        rng.shuffle(stmts)
    return stmts, {"pool": pool, "mothers": mothers, "defined": defined, "model_aliases": malias}


# ----------------------------------------------------------------------------- layouts
COMMENTS = ["# a comment", "#", "#Decay X", "# End", "#;", "# 0.5 K+ K- PHSP;", "#\ttabbed  ", "# Enddecay"]


class Layout:
    """random semantics-preserving layout of a statement list (only edits named by property C02)"""

    def __init__(self, rng: random.Random, crlf=None, comments=True, wrap=True, commas=True, semis=True, indent=True, blank_lines=True):
        self.rng = rng
        self.crlf = rng.random() < 0.3 if crlf is None else crlf
        self.comments, self.wrap, self.commas, self.semis, self.indent, self.blank_lines = comments, wrap, commas, semis, indent, blank_lines

    def gap(self):
        r = self.rng
        return r.choice([" ", " ", "  ", "\t", "   ", " \t "])

    def nl(self):
        return "\r\n" if self.crlf else "\n"

    def eol(self):
        """end of a statement: optional trailing blanks / comment, one or more line ends, blank or comment lines"""
        r = self.rng
        s = ""
        if r.random() < 0.15:
            s += self.gap()
        if self.comments and r.random() < 0.2:
            s += (self.gap() if r.random() < 0.7 else "") + r.choice(COMMENTS)
        s += self.nl()
        while self.blank_lines and r.random() < 0.25:
            if self.comments and r.random() < 0.4:
                s += (self.gap() if r.random() < 0.3 else "") + r.choice(COMMENTS)
            elif r.random() < 0.3:
                s += self.gap()
            s += self.nl()
        return s

    def ind(self):
        return self.gap() if (self.indent and self.rng.random() < 0.5) else ""

    def model(self, m):
        r = self.rng
        if m[0] == "alias":
            s = m[1]
        else:
            s = m[1]
            if m[2] is not None:
                items = [p[1] for p in m[2]]
                for k, it in enumerate(items):
                    sep = self.gap()
                    if k > 0 and self.commas and r.random() < 0.2:
                        sep = (self.gap() if r.random() < 0.5 else "") + "," + (self.gap() if r.random() < 0.7 else "")
                        if it[0] in "+-." or it[0].isdigit():
                            pass
                    if self.wrap and r.random() < 0.15 and len(items) > 0:
                        # wrap the parameter list: a line end (possibly after a comment) between items
                        pre = sep if r.random() < 0.6 else ""       # the line end may follow the previous token directly
                        sep = pre + ((r.choice(COMMENTS) if self.comments and r.random() < 0.3 else "")) + self.nl() + self.ind()
                        # a continuation line must not be a lone 'End' line (it would be dropped by the multi-file constructor)
                        if it == "End":
                            sep = self.gap()
                    s += sep + it
        n = r.choice([1, 1, 1, 2, 3]) if self.semis else 1
        s += ("" if r.random() < 0.5 else self.gap()) + ";"
        for _ in range(n - 1):
            s += ("" if r.random() < 0.5 else self.gap()) + ";"
        return s

    def stmt(self, st):
        g = self.gap
        k = st[0]
        if k == "define":
            return f"Define{g()}{st[1]}{g()}{st[2]}"
        if k == "particle_def":
            return f"Particle{g()}{st[1]}{g()}{st[2]}" + (f"{g()}{st[3][0]}" if st[3] else "")
        if k == "pythia":
            o = lambda: self.rng.choice(["", " ", "  "])
            return f"{st[1]}{g()}{st[2]}{o()}:{o()}{st[3]}{o()}={o()}{st[4][1]}"
        if k == "jetset":
            o = lambda: self.rng.choice(["", " "])
            return f"JetSetPar{g()}{st[1]}{o()}={o()}{st[2]}"
        if k == "ls_def":
            return f"{st[1]}{g()}{st[2]}"
        if k == "inc_factor":
            return f"{st[1]}{g()}{st[2]}{g()}{'yes' if st[3] else 'no'}"
        if k == "setlsbw":
            return f"BlattWeisskopf{g()}{st[1]}{g()}{st[2]}"
        if k == "setlspw":
            return f"SetLineshapePW{g()}{st[1]}{g()}{st[2]}{g()}{st[3]}{g()}{st[4]}"
        if k == "cdecay":
            return f"CDecay{g()}{st[1]}"
        if k == "alias":
            return f"Alias{g()}{st[1]}{g()}{st[2]}"
        if k == "chargeconj":
            return f"ChargeConj{g()}{st[1]}{g()}{st[2]}"
        if k == "changemasslimit":
            return f"{st[1]}{g()}{st[2]}{g()}{st[3]}"
        if k == "global_photos":
            return "yesPhotos" if st[1] else "noPhotos"
        if k == "copydecay":
            return f"CopyDecay{g()}{st[1]}{g()}{st[2]}"
        if k == "model_alias":
            return f"ModelAlias{g()}{st[1]}{g()}{self.model(st[2])}"
        if k == "decay":
            s = f"Decay{g()}{st[1]}" + self.eol()
            for bf, ds, photos, model in st[2]:
                s += self.ind() + bf + "".join(g() + d for d in ds) + (g() + "PHOTOS" if photos else "") + g() + self.model(model) + self.eol()
            s += self.ind() + "Enddecay"
            return s
        raise ValueError(k)

    def render(self, doc, end_line=None, leading=True):
        r = self.rng
        s = ""
        if leading and self.blank_lines and r.random() < 0.3:
            s += (r.choice(COMMENTS) if self.comments and r.random() < 0.5 else "") + self.nl()
        for st in doc:
            s += self.ind() + self.stmt(st) + self.eol()
        if end_line if end_line is not None else r.random() < 0.3:
            s += self.ind() + "End" + self.eol()
        return s


# ----------------------------------------------------------------------------- sibling documents
def sibling_doc(rng: random.Random, doc, n_edits=None, structure=True):
    """a document differing from `doc` in a few values only (most of its text is byte-identical): a Define value, a branching
    fraction, a daughter, a model parameter, the partner of an Alias / ChargeConj / CopyDecay, a dropped or doubled decay
    line, two statements exchanged.  Read right after `doc` in the same process (and `doc` again after it), every answer must
    come from the text just read: anything remembered across parses under a key that ignores the edited value shows up as a
    disagreement with the model.  structure=False keeps who decays into whom (for acyclic table sets)."""
    import copy

    d = copy.deepcopy(doc)
    names = [st[1] for st in d if st[0] == "decay"] or ["pi0"]
    n_edits = n_edits or rng.choice([1, 1, 2, 3])
    done = 0
    for _ in range(n_edits * 6):
        if done >= n_edits or not d:
            break
        st = rng.choice(d)
        k = st[0]
        if k == "define":
            st[2] = rng.choice([x for x in NUM_FORMS if x != st[2]])
        elif k == "decay" and st[2]:
            ln = rng.choice(st[2])
            r = rng.random()
            if r < 0.3:
                ln[0] = rng.choice([x for x in BF_CHOICES if x != ln[0]])
            elif r < 0.55 and ln[1] and structure:
                j = rng.randrange(len(ln[1]))
                alt = [x for x in names + ln[1] + ["gamma", "pi0", "K+"] if x != ln[1][j] and safe_label(x)]
                if not alt or (j == 0 and alt[0][0] in "0123456789.+-"):
                    continue
                ln[1][j] = rng.choice([a for a in alt if not (j == 0 and a[0] in "0123456789.+-")] or [ln[1][j]])
            elif r < 0.7 and len(ln[1]) >= 2:
                i, j = rng.sample(range(len(ln[1])), 2)
                if ln[1][i] == ln[1][j] or ln[1][j][0] in "0123456789.+-" or ln[1][i][0] in "0123456789.+-":
                    continue
                ln[1][i], ln[1][j] = ln[1][j], ln[1][i]
            elif r < 0.8:
                ln[2] = not ln[2]
            elif r < 0.9 and ln[3][0] == "named" and ln[3][2]:
                pars = ln[3][2]
                j = rng.randrange(len(pars))
                if pars[j][0] == "num":
                    pars[j] = ["num", rng.choice([x for x in NUM_FORMS if x != pars[j][1]])]
                else:
                    continue
            else:
                if len(st[2]) >= 2 and rng.random() < 0.5:
                    st[2].pop(rng.randrange(len(st[2])))
                else:
                    st[2].insert(rng.randrange(len(st[2]) + 1), copy.deepcopy(ln))
        elif k in ("alias", "chargeconj", "copydecay") and len(names) >= 1 and structure:
            alt = [x for x in names if x != st[2] and x != st[1]]
            if not alt:
                continue
            st[2] = rng.choice(alt)
        elif k == "model_alias" and st[2][0] == "named" and st[2][2]:
            pars = st[2][2]
            j = rng.randrange(len(pars))
            if pars[j][0] != "num":
                continue
            pars[j] = ["num", rng.choice([x for x in NUM_FORMS if x != pars[j][1]])]
        elif k == "global_photos":
            st[1] = not st[1]
        else:
            same = [i for i, s2 in enumerate(d) if s2[0] == k and s2 is not st]
            if not same:
                continue
            i, j = d.index(st), rng.choice(same)
            d[i], d[j] = d[j], d[i]
        done += 1
    return d
