"""Generators shared by the harness modules.  Every random choice comes from the `random.Random` given."""
from __future__ import annotations

import itertools
import random
from fractions import Fraction

_EVTGEN = None


def evtgen_names():
    global _EVTGEN
    if _EVTGEN is None:
        from particle.converters import EvtGenName2PDGIDBiMap

        _EVTGEN = [str(k) for k in EvtGenName2PDGIDBiMap._to_map.keys()]
    return _EVTGEN


ODD_NAMES = ["K_1(1270)+", "Upsilon(4S)", "f'_0", "anti-K*0", "X(3872)", "a_1(1260)-", "D*(2010)+", "Lambda_b0",
             "chi_c1", "B_s0", "anti-Xi_cc--", "K*_0(1430)0", "f_2'(1525)", "eta'", "psi(2S)", "h_c", "nu_tau",
             "rho(2S)+", "D'_s1+", "Xi'_c0", "p+", "anti-p-", "e+", "e-", "mu+", "gamma", "pi+", "pi-", "pi0",
             "K+", "K-", "K_S0", "K_L0", "x~1", "a/b", "q*q", "2pi", "1.0", "-3", "A.B", "(ab)", "'", "~", "_"]

SYNTH_CHARS = "abcdefghijklmnopqrstuvwxyzABCDEFGHIJKLMNOPQRSTUVWXYZ0123456789/-+*_().'~"


def name_pool(rng: random.Random, n: int, synthetic: float = 0.2) -> list[str]:
    """n distinct names: real EvtGen names, odd spellings, synthetic labels over the whole alphabet"""
    out = []
    seen = set()
    ev = evtgen_names()
    while len(out) < n:
        r = rng.random()
        if r < synthetic:
            k = rng.randint(1, 6)
            s = "".join(rng.choice(SYNTH_CHARS) for _ in range(k))
        elif r < synthetic + 0.3:
            s = rng.choice(ODD_NAMES)
        else:
            s = rng.choice(ev)
        if s not in seen:
            seen.add(s)
            out.append(s)
    return out


def json_value(rng: random.Random, depth: int = 0):
    r = rng.random()
    if depth > 2 or r < 0.5:
        return rng.choice([None, True, False, 0, 1, -7, 2019, 0.5, 1e-3, "", "toy", "PHSP", "a b", 'q"uote', "ünï"])
    if r < 0.75:
        return [json_value(rng, depth + 1) for _ in range(rng.randint(0, 3))]
    return {rng.choice(["B0", "k", "x y", "zfit", "n"]) + str(i): json_value(rng, depth + 1) for i in range(rng.randint(0, 3))}


def rand_bf(rng: random.Random, exact: bool):
    if exact:
        return Fraction(rng.randint(1, 999), rng.choice([1000, 997, 64, 3, 7, 1]))
    return rng.choice([1.0, 0.5, 0.1, 0.3, 0.0124, 0.98823, 0.692, 1e-5, 0.6770, 3.3392e-05, 0.25])


def rand_tree_spec(rng: random.Random, n_dec: int, max_items: int = 4, max_mult: int = 3, names=None, all_reachable=True):
    """a single acyclic chain: list of (name, daughters list) for n_dec decaying particles; the mother is the first.
    A decaying particle only has decaying daughters of a higher index, hence no cycle."""
    names = names or name_pool(rng, n_dec + 6)
    dec = names[:n_dec]
    stable = names[n_dec:]
    spec = []
    for i, d in enumerate(dec):
        ds = []
        n_items = rng.randint(0 if i > 0 and rng.random() < 0.1 else 1, max_items)
        for _ in range(n_items):
            if i + 1 < n_dec and rng.random() < 0.5:
                ds += [dec[rng.randint(i + 1, n_dec - 1)]] * rng.randint(1, max_mult if rng.random() < 0.3 else 1)
            else:
                ds += [rng.choice(stable)] * rng.randint(1, max_mult if rng.random() < 0.3 else 1)
        spec.append((d, ds))
    if all_reachable:
        # make sure every decaying particle is used by an earlier one
        for i in range(1, n_dec):
            if not any(dec[i] in ds for _, ds in spec[:i]):
                spec[rng.randint(0, i - 1)][1].append(dec[i])
    return spec


def all_small_tree_specs(max_dec: int, names_dec, names_stable, max_mult: int = 2):
    """exhaustive small shapes: every decaying particle i>0 is attached below one earlier particle, with a
    multiplicity, plus 0..1 stable daughters"""
    for n in range(1, max_dec + 1):
        parents = itertools.product(*[range(i) for i in range(1, n)])
        for par in parents:
            for mults in itertools.product(range(1, max_mult + 1), repeat=n - 1):
                for extra in itertools.product([0, 1], repeat=n):
                    spec = [[names_dec[i], []] for i in range(n)]
                    for i in range(1, n):
                        spec[par[i - 1]][1] += [names_dec[i]] * mults[i - 1]
                    for i in range(n):
                        spec[i][1] += [names_stable[i % len(names_stable)]] * (1 + extra[i])
                    yield [(a, b) for a, b in spec]


# ----------------------------------------------------------------------------- .dec documents
_MODELS = None


def known_models():
    global _MODELS
    if _MODELS is None:
        from decaylanguage.dec.enums import known_decay_models

        _MODELS = list(known_decay_models)
    return _MODELS


_WORD = set("abcdefghijklmnopqrstuvwxyzABCDEFGHIJKLMNOPQRSTUVWXYZ0123456789_")


def safe_label(name: str, extra_models=()) -> bool:
    """a label that is one LABEL token in daughter position and is not taken for a model name or PHOTOS"""
    if not name or name[0] in "0123456789.+-" or name == "PHOTOS":
        return False
    if any(c not in SYNTH_CHARS for c in name):
        return False
    for m in list(known_models()) + list(extra_models):
        if name.startswith(m) and (len(name) == len(m) or name[len(m)] not in _WORD):
            return False
    return True


def safe_names(rng: random.Random, n: int, synthetic: float = 0.15):
    out = []
    while len(out) < n:
        for s in name_pool(rng, n, synthetic):
            if safe_label(s) and s not in out:
                out.append(s)
    return out[:n]


MODEL_CHOICES = [
    ["named", "PHSP", None], ["named", "PHSP", None], ["named", "VSS", None], ["named", "SVS", None],
    ["named", "HELAMP", [["num", "1.0"], ["num", "0.0"], ["num", "-1.0"], ["num", "0.5"]]],
    ["named", "TAUHADNU", [["num", "-0.108"], ["num", "0.775"], ["num", "0.149"]]],
    ["named", "SSD_CP", [["num", "20.e12"], ["num", "0.1"], ["num", "1."], ["num", ".04"], ["num", "2E-4"], ["num", "+3"]]],
    ["named", "LbAmpGen", [["word", "DtoKpipipi_v1"]]],
    ["named", "VSP_PWAVE", None], ["named", "PI0_DALITZ", None], ["named", "ISGW2", None],
    ["named", "BTOXSGAMMA", [["num", "2"]]], ["named", "PYTHIA", [["num", "21"]]],
]

BF_CHOICES = ["1.0", "0.5", "0.25", "0.125", "1", "0.3", "0.0271", "0.0542", "1e-3", "2E-4", ".5", "1.", "0.98823", "0.6770"]


def gen_tables(rng: random.Random, n_dec=None, max_lines=4, max_ds=4, aliases=True, empty_blocks=True, depth_bias=0.5):
    """an acyclic set of decay tables as wire statements.  Returns (doc, info) with info = dict(dec=[names of
    particles with a Decay block], stable=[...], aliases={alias: name})"""
    n_dec = n_dec or rng.choice([1, 2, 3, 3, 4, 5, 6])
    names = safe_names(rng, n_dec + 5)
    dec = names[:n_dec]
    stable = names[n_dec:]
    alias = {}
    doc = []
    # alias targets come from a small pool so that several aliases of one particle, and an alias next to
    # the aliased particle itself (both with their own Decay block), do occur
    pool = [rng.choice(stable), rng.choice(dec), rng.choice([n for n in evtgen_names() if safe_label(n)][:50])]
    for i, d in enumerate(dec):
        if aliases and i > 0 and rng.random() < 0.4:
            target = rng.choice(pool)
            if target != d:
                alias[d] = target
    blocks = []
    for i, d in enumerate(dec):
        n_lines = rng.randint(0 if (empty_blocks and i > 0 and rng.random() < 0.15) else 1, max_lines)
        lines = []
        for _ in range(n_lines):
            ds = []
            for _ in range(rng.randint(0 if rng.random() < 0.05 else 1, max_ds)):
                if i + 1 < n_dec and rng.random() < depth_bias:
                    ds.append(dec[rng.randint(i + 1, n_dec - 1)])
                else:
                    ds.append(rng.choice(stable))
                if rng.random() < 0.2:
                    ds.append(ds[-1])
            lines.append([rng.choice(BF_CHOICES), ds, rng.random() < 0.2, rng.choice(MODEL_CHOICES)])
        blocks.append(["decay", d, lines])
    for a, t in alias.items():
        doc.append(["alias", a, t])
    rng.shuffle(blocks) if rng.random() < 0.5 else None
    doc += blocks
    if rng.random() < 0.3:
        rng.shuffle(doc)
    return doc, {"dec": dec, "stable": stable, "aliases": alias}
