"""Generators for the AmpGen options reader tie (C17): well-formed option texts built from an intended statement list,
malformed texts (token soups, loose templates, mutations of well-formed texts) and a fixed list of edge cases.  Written with
the reader model DL/Model/AmpRead.lean (validated there on 10^4 generated and 3.7*10^6 exhaustively enumerated short texts)."""
from __future__ import annotations

import re

# ----------------------------------------------------------------------------- vocabulary
KEYWORDS = ["EventType", "Output", "nEvents", "FastCoherentSum::UseCartesian"]
REAL_NAMES = ["D0", "K-", "pi+", "pi-", "K+", "K*(892)bar0", "rho(770)0", "rho(1450)0", "omega(782)0", "K*(892)0", "phi(1020)0",
              "K(1)(1270)bar-", "a(1)(1260)+", "K(1)(1400)bar-", "K(2)*(1430)bar-", "K(1460)bar-", "KPi00", "PiPi00", "PiPi20",
              "Lambda(c)+", "D*(2010)+", "f(0)(980)0", "B0", "J/psi(1S)0", "K'", "Ds+", "D0_radius", "x::y", "a(1)(1260)+::Spline::Min",
              "K(1460)bar-::Spline::N", "Foo::Bar", "xx", "x", "IS_p1_4pi", "f_scatt1", "K(1)(1270)bar-_mass", "S", "P", "D", "e-", "E5"]
LABEL_UNITS = list("abcdeEKDSPxyz") + list("0123456789") + ["_", "/", "'", "*", "+", "-", "(", ")", "::"]
NUMS = ["1", "0", "0.5", "1.25", "-0.271637", "2.01551", "0.0205762", "3.01374", "-2.96395", "1e-3", "2E-1", ".5", "+0.75",
        "5.", "1.e5", "-.5e+3", "+12", "007", "1E5", "0.0", "-0", "+.25E-2", "10"]
FLAGS = ["0", "2", "1", "0", "2", "3", "-1", "+2", "02", "2.0", "1e0", ".5"]
LINESHAPES = ["GSpline.EFF", "kMatrix.pole.1", "kMatrix.prod.0", "FOCUS.Kpi", "FOCUS.I32", "DD", "D.", "BW", "S1", "SBW", "1/2", "LASS",
              "_x", "a.b.c", "S.", "P_", "Flatte", "x..", "0.5", "//"]
STRINGS = ['"file.root"', '"a b"', '"x#y"', '"a\\"b"', '"a\\\\"', '""', '"tab\there"', '"\\\\\\""', '"out_1.root"', '"é\u2028ü"',
           '"a\\\\\\\\"', '"{[,;]}="', '"\\n"']
NUMLIKE = re.compile(r"[+-]?[0-9]")


def rand_label(rng, numlike_ok=True, keyword_ok=True):
    while True:
        r = rng.random()
        if r < 0.6:
            w = rng.choice(REAL_NAMES)
        elif r < 0.68 and keyword_ok:
            w = rng.choice(KEYWORDS)
        elif r < 0.75:
            w = rng.choice(KEYWORDS) + rng.choice(["X", "::x", "1", "_", "+"])
        else:
            w = "".join(rng.choice(LABEL_UNITS) for _ in range(rng.randint(1, 6)))
        if not numlike_ok and NUMLIKE.match(w):
            continue
        if not keyword_ok and w in KEYWORDS:
            continue
        return w


def rand_number(rng):
    if rng.random() < 0.6:
        return rng.choice(NUMS)
    s = rng.choice(["", "", "+", "-"])
    form = rng.randint(0, 3)
    d = lambda: "".join(rng.choice("0123456789") for _ in range(rng.randint(1, 4)))
    if form == 0:
        body = d()
    elif form == 1:
        body = d() + "." + (d() if rng.random() < 0.8 else "")
    elif form == 2:
        body = "." + d()
    else:
        body = d() + rng.choice(["e", "E"]) + rng.choice(["", "+", "-"]) + d()
        return s + body
    if rng.random() < 0.25:
        body += rng.choice(["e", "E"]) + rng.choice(["", "+", "-"]) + d()
    return s + body


# ----------------------------------------------------------------------------- well-formed texts
def gen_decay(rng, depth, top=False):
    """intended tree; `top`: the decay of a line (needs daughters)"""
    name = rand_label(rng, keyword_ok=not top)
    if depth == 0 or (not top and rng.random() < 0.55):
        return ["D", name, None, None, []]
    spin = ls = None
    tagform = None
    r = rng.random()
    if r < 0.2:
        spin, tagform = rng.choice("SPD"), "s"
    elif r < 0.4:
        ls, tagform = rng.choice(LINESHAPES), "l"
    elif r < 0.52:
        spin, ls, tagform = rng.choice("SPD"), rng.choice(LINESHAPES), "sl"
    elif r < 0.56:
        ls, tagform = rng.choice(LINESHAPES), "ll"
    d = ["D", name, spin, ls, [gen_decay(rng, depth - 1), gen_decay(rng, depth - 1)]]
    d.append(tagform)
    return d


def strip_form(d):
    return ["D", d[1], d[2], d[3], [strip_form(x) for x in d[4]]]


def sp(rng, allow_empty=True):
    r = rng.random()
    if allow_empty and r < 0.45:
        return ""
    return rng.choice([" ", " ", " ", "  ", "\t", " \t "])


def render_decay_text(rng, d):
    s = d[1]
    if d[4]:
        form = d[5]
        if form:
            s += sp(rng) + "[" + sp(rng)
            if form == "s":
                s += d[2]
            elif form == "l":
                s += d[3]
            elif form == "sl":
                s += d[2] + sp(rng) + ";" + sp(rng) + d[3]
            else:
                s += rng.choice(LINESHAPES) + sp(rng) + ";" + sp(rng) + d[3]
            s += sp(rng) + "]"
        s += sp(rng) + "{" + sp(rng) + render_decay_text(rng, d[4][0]) + sp(rng) + "," + sp(rng) + render_decay_text(rng, d[4][1]) + sp(rng) + "}"
    return s


def join_numbers(rng, prev_is_label, nums):
    """numbers of a line; blanks may be dropped where the lexer cuts the same tokens anyway"""
    s = ""
    for i, n in enumerate(nums):
        if i == 0:
            if prev_is_label:
                s += sp(rng, allow_empty=n.startswith("."))
            else:
                s += sp(rng)                       # after `}`
        else:
            s += sp(rng, allow_empty=n[0] in "+-")
        s += n
    return s


LINE_ENDS = ["\n", "\n", "\n", "\r\n", " \n", "\n\n", "\n  \n", " # comment\n", "# c\n", "\n#c\n\t\n", "\r\n\r\n", "\t\r\n", "\n# D0{K-,pi+} 0 1 0 0 1 0\n",
             "#\n", " #\r\n", "\n   ", "\n\t#x\n  #y\n"]
LAST_ENDS = LINE_ENDS + ["#end", " # end", "\n#", "\r\n#e", " #e\r"]
LEADS = ["", "", "", "\n", "  ", "# c\n", "\r\n\n", " \t# c\n\n", "\t", "#\n", "\n\n\n", " \n"]


def gen_well(rng):
    """(text, intended doc)"""
    doc, lines = [], []
    n = rng.randint(1, 8)
    for _ in range(n):
        k = rng.choice(["event_type", "line", "line", "line", "cart_line", "invert_line", "constant", "variable", "variable", "fcs", "output", "nevents"])
        if k == "event_type":
            names = [rand_label(rng)] + [rand_label(rng, numlike_ok=False) for _ in range(rng.randint(1, 5))]
            doc.append([k, names])
            lines.append("EventType" + sp(rng, False) + "".join(x + sp(rng, False) for x in names[:-1]) + names[-1])
        elif k in ("line", "cart_line"):
            d = gen_decay(rng, rng.randint(1, 3), top=True)
            nums = []
            for _ in range(2 if k == "line" else 1):
                nums += [rng.choice(FLAGS[:9] if rng.random() < 0.95 else FLAGS), rand_number(rng), rand_number(rng)]
            doc.append(["line", strip_form(d)] + nums if k == "line" else ["cart_line"])
            lines.append(render_decay_text(rng, d) + join_numbers(rng, False, nums))
        elif k == "invert_line":
            a, b = rand_label(rng, keyword_ok=False), rand_label(rng)
            doc.append([k])
            lines.append(a + sp(rng) + "=" + sp(rng) + b)
        elif k == "constant":
            a, v = rand_label(rng, keyword_ok=False), rand_number(rng)
            doc.append([k, a, v])
            lines.append(a + join_numbers(rng, True, [v]))
        elif k == "variable":
            a = rand_label(rng, keyword_ok=False)
            nums = [rng.choice(FLAGS[:9] if rng.random() < 0.95 else FLAGS), rand_number(rng), rand_number(rng)]
            doc.append([k, a] + nums)
            lines.append(a + join_numbers(rng, True, nums))
        elif k == "fcs":
            v = rng.choice(["0", "1", "1", "00", "17"])
            doc.append([k, v])
            lines.append("FastCoherentSum::UseCartesian" + sp(rng, False) + v)
        elif k == "nevents":
            v = rng.choice(["100", "0", "1000000", "0012"])
            doc.append([k, v])
            lines.append("nEvents" + sp(rng, False) + v)
        else:
            v = rng.choice(STRINGS)
            doc.append([k, v])
            lines.append("Output" + sp(rng) + v)
    text = rng.choice(LEADS)
    for i, ln in enumerate(lines):
        text += ln + sp(rng) + rng.choice(LAST_ENDS if i == len(lines) - 1 else LINE_ENDS)
    return text, doc


# ----------------------------------------------------------------------------- malformed texts
TOKEN_RE = re.compile(r'"[^"\n]*"|#[^\n]*|\r?\n|[ \t]+|::|[A-Za-z0-9_/\'*+\-()]+|\.[0-9]+|.', re.S)
SOUP = (REAL_NAMES[:12] + KEYWORDS + KEYWORDS + NUMS[:14] + FLAGS[:4] + LINESHAPES[:8] + ["S", "P", "D"] + STRINGS[:5]
        + ["[", "]", "{", "}", ",", ";", "=", "[", "]", "{", "}", ",", "\n", "\n", "\n", "\r\n", "\r", "# c", "#", ".", ":", "::", '"', "@", "é", "\x0c",
           " ", "\t", "2pi", "-pi", "+1x", "1e", "e5", "1.2.3", "x.5", "a=b", "{a,b}", "[D]", "[DD]", "[S;BW]", "[BW;BW]", "[S;P]", "[;BW]", "[]", "{}", "\\"])


def rand_tok(rng):
    r = rng.random()
    if r < 0.7:
        return rng.choice(SOUP)
    if r < 0.85:
        return rand_number(rng)
    return rand_label(rng)


def gen_soup(rng):
    n = rng.randint(1, 12)
    s = ""
    for _ in range(n):
        s += rand_tok(rng) + rng.choice(["", " ", " ", " ", "\n", "\t"])
    if rng.random() < 0.7:
        s += "\n"
    return s


def gen_loose(rng):
    """lines from loose templates: right shapes, wrong counts / wrong places"""
    out = rng.choice(LEADS)
    for _ in range(rng.randint(1, 4)):
        t = rng.randint(0, 9)
        lab = lambda: rand_label(rng)
        num = lambda: rand_number(rng)
        if t == 0:
            ln = lab() + " " + " ".join(num() for _ in range(rng.randint(0, 7)))
        elif t == 1:
            ln = "EventType " + " ".join(lab() for _ in range(rng.randint(0, 4)))
        elif t == 2:
            ln = rng.choice(KEYWORDS) + rng.choice([" ", "", "  "]) + rng.choice([num(), lab(), rng.choice(STRINGS), "", "12", "3", "+5", "-1", "+0", "5 #c", "5x", "5 6"])
        elif t == 3:
            d = gen_decay(rng, rng.randint(0, 2), top=rng.random() < 0.8)
            ln = render_decay_text(rng, d) + " " + " ".join(num() for _ in range(rng.choice([0, 2, 3, 3, 4, 5, 6, 6, 6, 7])))
        elif t == 4:
            ln = lab() + rng.choice(["[", " ["]) + rng.choice(["S", "P", "D", "DD", "X", "S;BW", "BW;S", "BW;BW", "", "S;", ";", "S;P;D", "D ][", "S;P", "D;S", "P;D", "S;S1", "S ; P"] + LINESHAPES[:6]) + "]" \
                + rng.choice(["{a,b}", "{a,b}", "", "{a}", "{a,b,c}", "{a,b{c,d}}", "{a{c,d},b}", "{,}", "{a b}", "{a;b}"]) + " " + " ".join(num() for _ in range(rng.choice([3, 6, 6, 2])))
        elif t == 5:
            ln = lab() + rng.choice([" = ", "=", " == ", " = = "]) + rng.choice([lab(), "", num(), lab() + " " + lab()])
        elif t == 6:
            ln = lab() + rng.choice(["", " "]) + lab() + " " + num()
        elif t == 7:
            ln = "D0{K-" + rng.choice([",", " ,", ", #c\n", ",\n", " 2,"]) + "pi+}" + rng.choice([" ", ""]) + " ".join(num() for _ in range(6))
        elif t == 8:
            if rng.random() < 0.6:
                ln = rng.choice(["Output ", "Output"]) + "".join(rng.choice(['"', '"', "\\", "\\", "a", "#", " ", "\n"]) for _ in range(rng.randint(1, 9)))
            else:
                ln = rng.choice(["Output ", "Output"]) + rng.choice(['"a', 'a"', '"a\\"', '"a" "b"', '"a"b', "'a'", '"a\nb"', '"a\\\\"', '"\\\\\\"', '"a" # c'])
        else:
            ln = lab() + " " + num() + rng.choice(["x", "e", ".", " .", "..5", "e+", "-", "+", " + 1 2"]) + " " + num() + " " + num()
        out += ln + rng.choice(LAST_ENDS + ["", "", " ", "\r", "\n\r", ";\n"])
    return out


def mutate(rng, text):
    toks = TOKEN_RE.findall(text)
    if not toks:
        return text
    r = rng.random()
    i = rng.randrange(len(toks))
    if r < 0.2:
        del toks[i]
    elif r < 0.35:
        toks.insert(i, toks[i])
    elif r < 0.6:
        toks[i] = rand_tok(rng)
    elif r < 0.75:
        toks.insert(i, rand_tok(rng))
    elif r < 0.85 and len(toks) > 1:
        j = min(i + 1, len(toks) - 1)
        toks[i], toks[j] = toks[j], toks[i]
    else:
        s = "".join(toks)
        j = rng.randrange(len(s))
        op = rng.random()
        c = rng.choice(list("xD1.+-:#\"\n\r \t[]{},;=e\\'*()/_") + ["é"])
        if op < 0.35:
            return s[:j] + s[j + 1:]
        if op < 0.7:
            return s[:j] + c + s[j:]
        return s[:j] + c + s[j + 1:]
    return "".join(toks)


def gen_mal(rng, wells):
    r = rng.random()
    if r < 0.2:
        return gen_soup(rng)
    if r < 0.5:
        return gen_loose(rng)
    t = rng.choice(wells)
    t = mutate(rng, t)
    if rng.random() < 0.15:
        t = mutate(rng, t)
    return t


FIXED = [
    "", "\n", "#c", "#c\n", "x 2", "x 2\n", "x 2 #c", "x 2#c", "x 2 1.0 0.1\n", "x 2 1.0 0.1 2 1.0 0.1\n", "x 2 1\n", "\n\nx 2\n", "  x 2\n", "x 2\n  ",
    "x 2\r\n", "x 2\r", "x 2\n\r", "x 2\n\r\n", "x 2 \t\n", "\tx\t2\t\n", "x\n2\n", "x #c\n2\n", "x 2\n#c\ny 3\n", "x 2\n #c\n y 3\n", "x 2 # c\n\n# d\ny 3 # e",
    "EventType D0 K- pi+\n", "EventType D0\n", "EventType\n", "EventType D0 2pi K-\n", "EventType 2pi D0\n", "EventType D0 -pi\n", "EventType D0 +1x\n",
    "EventType D0 .5\n", "EventType D0 EventType Output\n", "EventType EventType Output\n", "EventTypeX D0 K-\n", "EventTypeX 2\n", "EventType D0 K- # c\n",
    "EventType # c\n D0 K-\n", "EventType D0 K-#c", "EventType D0 K-\n pi+\n", "EventType D0 e5 E5 1e5\n", "EventType D0 e-\n", "EventType D0 K- =\n",
    "EventType{ D0 K-\n", "nEvents 5\n", "nEvents5\n", "nEvents5 1\n", "nEvents 5.0\n", "nEvents -5\n", "nEvents +5\n", "nEvents 5 6\n", "nEvents\n", "nEvents x\n",
    "FastCoherentSum::UseCartesian 1\n", "FastCoherentSum::UseCartesian::x 1\n", "FastCoherentSum::UseCartesian\n", "FastCoherentSum:: 1\n", "FastCoherentSum 1\n",
    "FastCoherentSum::UseCartesian 1 2 3\n", 'Output "file"\n', 'Output"file"\n', 'Output "a\\"b"\n', 'Output "a\\\\"\n', 'Output "a\\\\\\"\n', 'Output ""\n',
    'Output "a" "b"\n', 'Output "a"b"\n', 'Output "a\nb"\n', 'Output "a#b"\n', 'Output # "x"\n', "Output 'x'\n", 'Output "x" 2\n', "Output 2\n", "Output = x\n", "Output\n",
    "D0{K-,pi+} 2 1 0 2 1 0\n", "D0{K-,pi+} 2 1 0\n", "D0{K-,pi+}\n", "D0{K-,pi+} 2 1\n", "D0{K-,pi+} 2 1 0 2\n", "D0{K-,pi+} 2 1 0 2 1 0 7\n", "D0{K-,pi+}2 1 0 2 1 0\n",
    "D0 {K-,pi+} 2 1 0 2 1 0\n", "D0{K-}\n", "D0{K-,pi+,pi-} 2 1 0\n", "D0{K- pi+} 2 1 0\n", "D0{K-,\npi+} 2 1 0\n", "D0{K-, #c\npi+} 2 1 0\n", "D0{K- #c\n,pi+} 2 1 0\n",
    "D0[D]{K-,pi+} 2 1 0\n", "D0[DD]{K-,pi+} 2 1 0\n", "D0[D.]{K-,pi+} 2 1 0\n", "D0[.D]{K-,pi+} 2 1 0\n", "D0[GSpline.EFF]{K-,pi+} 2 1 0 0 0 0\n", "D0[S;kMatrix.pole.1]{K-,pi+} 2 1 0 0 0 0\n",
    "D0[S;P]{K-,pi+} 2 1 0\n", "D0[BW;BW2]{K-,pi+} 2 1 0 0 0 0\n", "D0[BW;S]{K-,pi+} 2 1 0\n", "D0[S;BW;BW]{K-,pi+} 2 1 0\n", "D0[X]{K-,pi+} 2 1 0\n", "D0[]{K-,pi+} 2 1 0\n",
    "D0[D] 2 1 0\n", "D0[D]\n", "D0 [ D ] { K- , pi+ } 2 1 0 2 1 0\n", "D0[ D ; BW ]{K-,pi+} 2 1 0 2 1 0\n", "D0[D;]{K-,pi+} 2 1 0\n", "D0[SS]{K-,pi+} 2 1 0 2 1 0\n", "D0[S1]{K-,pi+} 2 1 0 2 1 0\n",
    "D0[S-]{K-,pi+} 2 1 0 2 1 0\n", "D0{K*(892)bar0[P]{K-,pi+},rho(770)0{pi+,pi-}} 2 1 0 2 1 0\n", "D0{K*(892)bar0[P],rho(770)0} 2 1 0 2 1 0\n", "D0{a{b{c{d,e},f},g},h} 0 1 2 0 1 2\n",
    "D0{a,b}} 2 1 0\n", "D0{{a,b},c} 2 1 0\n", "D0{a,b}{c,d} 2 1 0\n", "D0{a,-1} 2 1 0\n", "D0{2,3} 2 1 0\n", "D0{a,b 2} 1 0\n", "D0{a 2,b} 1 0\n", "D0{Output,EventType} 2 1 0\n",
    "a = b\n", "a=b\n", "a = 2b\n", "a = b c\n", "a = b 2\n", "a =\n", "= b\n", "a = b = c\n", "a = Output\n", "Output = b\n", "2 3\n", "2 = 3\n", "2\n", "+ -\n", "- 1\n", "-1 1\n", ":: 1\n",
    ": 1\n", "x: 1\n", "x:: 1\n", "x:::y 1\n", "x::y 1\n", "x y\n", "x y 1\n", "x 2abc\n", "x 2-1+0\n", "x 2-1\n", "x 1.2.3 4\n", "x 1.2.3\n", "x.5\n", "x+1\n", "x +1\n", "x 1e\n", "x 1e5\n",
    "x 1e+\n", "x 1.e5\n", "x .e5\n", "x .\n", "x 5.\n", "x 5. .5 5\n", "x 2.0 1 1\n", "x 1e0 1 1\n", "x -1 1 1\n", "x +02 1 1\n", "x 2 1 1 # c", "x 2 1 # c\n 1\n", "x 2 1 1;\n", "é 1\n",
    "x 1 # é\n", "x 1\x0c\n", "x 1\n\x0c", "x 1\n\n\n\n", "\r\nx 1\r\n\r\ny 2\r\n", "\rx 1\n", "x 1 #c\r\ny 2\n", "x 1 #c\r", "x (1)\n", "x' 1\n", "x* 1\n", "(x) 1\n", "/ 1\n", "_ 1\n",
]


def _nest(k, left=True, tag=""):
    if k == 0:
        return "a"
    return "a" + tag + ("{" + _nest(k - 1, left, tag) + ",b}" if left else "{b," + _nest(k - 1, left, tag) + "}")


# deep nesting and long texts (the fuel of the model must not show)
FIXED += [_nest(40) + "0 1 2 0 1 2\n", _nest(40, False, "[D;BW]") + " 0 1 2\n", _nest(60)[:-5] + "\n", "a{" * 50 + "\n", "x 1\n" * 300,
          "EventType " + "pi+ " * 200 + "\n"]


