"""C09: decay chains are the faithful recursive unfolding of the decay tables."""
from __future__ import annotations

import itertools

from . import gen
from .common import REPO, Batch, Result, canon_json, conv_tree, fl, load_corpus, raw_parse, render_doc, rng_for, parse_with


def params_canon_py(mp):
    """model_params as reported by the code -> comparable form"""
    if mp == "":
        return None
    return [["num", float(x)] if isinstance(x, float) else ["word", str(x)] for x in mp]


def params_canon_wire(w):
    if w == "N":
        return None
    return [["num", fl(x[1])] if x[0] == "num" else ["word", x[1]] for x in w]


def chain_canon_py(cd: dict):
    (mother, modes), = cd.items()
    return [mother, [[float(m["bf"]), m["model"], params_canon_py(m["model_params"]),
                      [it if isinstance(it, str) else chain_canon_py(it) for it in m["fs"]]] for m in modes]]


def chain_canon_wire(w):
    return [w[1], [[fl(m[1][0]), m[1][1], params_canon_wire(m[1][2]),
                    [it[1] if it[0] == "L" else chain_canon_wire(it[1]) for it in m[2]]] for m in w[2:]]]


def spec_chain(p, mother, stable, depth=0):
    """the specification, computed from the per-table queries only"""
    if depth > 60:
        raise RecursionError
    modes = []
    mothers = p.list_decay_mother_names()
    for dm in p._find_decay_modes(mother):
        d = p._decay_mode_details(dm, display_photos_keyword=False)
        fs = []
        for x in d["fs"]:
            if x in stable or x not in mothers:
                fs.append(x)
            else:
                fs.append(spec_chain(p, x, stable, depth + 1))
        modes.append([float(d["bf"]), d["model"], params_canon_py(d["model_params"]), fs])
    return [mother, modes]


def chain_size(c):
    return 1 + sum(1 + sum(chain_size(it) for it in m[3] if not isinstance(it, str)) for m in c[1])


def run(ctx):
    from decaylanguage import DecFileParser
    from decaylanguage.dec.dec import DecayNotFound

    tier, seed = ctx["tier"], ctx["seed"]
    rng = rng_for(seed, "c09")
    res = Result("generated acyclic table sets x stable subsets (all when <= 5 particles) and mothers of shipped files; "
                 "non-trivial = distinct (tables, mother, stable set) whose chain has a sub-chain")
    batch = Batch(ctx["driver_ok"])
    n_docs = 150 if tier == "quick" else 1500

    forms = [0]

    def one(p, doc, text, mother, stable, label):
        case = {"kind": "chains", "label": label, "text": text if len(text) < 3000 else text[:200] + "...", "mother": mother, "stable": list(stable)}
        forms[0] += 1
        as_given = [list, tuple, set, frozenset, lambda s: dict.fromkeys(s, 1), list][forms[0] % 6](stable)
        case["stable_given_as"] = type(as_given).__name__
        try:
            impl = chain_canon_py(p.build_decay_chains(mother, stable_particles=as_given))
        except Exception as e:
            res.violation(f"build_decay_chains raised {type(e).__name__}: {e}", case, clause="chain")
            res.case()
            return
        want = spec_chain(p, mother, stable)
        if impl != want:
            res.violation("chain is not the recursive unfolding of the tables", case, impl=impl, model=want, clause="unfolding")
        nt = canon_json([text, mother, sorted(stable)]) if chain_size(want) > 1 + len(want[1]) else None
        res.case(nt, {"mother": mother, "stable": list(stable), "chain": impl} if nt and chain_size(want) < 12 else None)
        res.count("chains")
        if doc is not None:
            def on(ans, case=case, impl=impl):
                if ans is None:
                    return
                if ans[0] != "ok" or chain_canon_wire(ans[1]) != impl:
                    res.violation("chain differs from the model", case, impl=impl, model=ans, clause="model tie: build_decay_chains")

            batch.add(["chains", [True], doc, mother, list(stable)], on)

    for i in range(n_docs):
        doc, info = gen.gen_tables(rng, aliases=False)
        text = render_doc(doc)
        try:
            p = DecFileParser.from_string(text)
            p.parse()
            wire = conv_tree(raw_parse(text))
        except Exception as e:
            res.skipped += 1
            continue
        parts = info["dec"] + info["stable"][:2]
        mothers = p.list_decay_mother_names()
        if len(info["dec"]) <= 5:
            subsets = [list(s) for r in range(len(info["dec"]) + 1) for s in itertools.combinations(info["dec"], r)]
            if tier == "quick" and len(subsets) > 8:
                subsets = rng.sample(subsets, 8)
        else:
            subsets = [[]] + [[x for x in parts if rng.random() < 0.3] for _ in range(10)]
        for m in (mothers if tier != "quick" else mothers[:2]):
            for st in subsets:
                one(p, wire, text, m, st, "generated")
            one(p, wire, text, m, [m], "generated")  # the mother itself in S: only daughters are looked at
        if i % 3 == 0:
            # a table set differing in a few values (branching fractions, parameters, a dropped or doubled line), then the
            # previous one again on a NEW parser object: every chain comes from the tables of the text just read
            d2 = gen.sibling_doc(rng, doc, structure=False)
            for dd, lab in ((d2, "generated:sibling"), (doc, "generated:again")):
                t2 = render_doc(dd)
                try:
                    p2 = DecFileParser.from_string(t2)
                    p2.parse()
                    w2 = conv_tree(raw_parse(t2))
                except Exception:
                    res.skipped += 1
                    continue
                for m in p2.list_decay_mother_names()[:2]:
                    one(p2, w2, t2, m, [], lab)
                    if subsets:
                        one(p2, w2, t2, m, rng.choice(subsets), lab)
            res.count("siblings")
        if i % 4 == 2:
            # chains asked for before the text was parsed (refused), then parse() and the same requests on the same object:
            # the chains are those of the tables, whatever was asked and refused before
            p3 = DecFileParser.from_string(text)
            for x in info["dec"][:3] + ["nosuchparticle"]:
                try:
                    p3.build_decay_chains(x)
                except Exception:
                    pass
            try:
                p3.parse()
            except Exception:
                p3 = None
            if p3 is not None:
                for m in mothers[:2]:
                    one(p3, wire, text, m, [], "history:asked-before-parse")
                res.count("asked_before_parse")
        # not found
        for missing in (info["stable"][0], "nosuchparticle"):
            try:
                p.build_decay_chains(missing)
                got = "accepted"
            except DecayNotFound:
                got = "DecayNotFound"
            except Exception as e:
                got = type(e).__name__
            res.case()
            res.count("not_found")
            if got != "DecayNotFound":
                res.violation("a particle without a table does not raise DecayNotFound", {"kind": "notfound", "text": text, "mother": missing}, impl=got, clause="not found")

            def on_nf(ans, text=text, missing=missing):
                if ans is not None and ans[:2] != ["err", "DecayNotFound"]:
                    res.violation("model does not report DecayNotFound", {"kind": "notfound", "text": text, "mother": missing}, model=ans, clause="model tie")

            batch.add(["chains", [True], wire, missing, []], on_nf)

    # daughters spelled like the PDG names of particles that have a table under their EvtGen names (phi(1020) / phi, K(S)0 / K_S0,
    # B~0 / anti-B0): in a .dec file a name is a label - such a daughter has no table, it is shown bare, and asking for it is refused
    pdg_text = ("Decay D_s+\n0.7 phi(1020) pi+ PHSP;\n0.2 K(S)0 K+ PHSP;\n0.1 phi K(S)0 pi+ PHSP;\nEnddecay\nDecay phi\n1.0 K+ K- PHSP;\nEnddecay\n"
                "Decay K_S0\n0.7 pi+ pi- PHSP;\n0.3 pi0 pi0 PHSP;\nEnddecay\nDecay B_s0\n1.0 D_s+ B~0 PHSP;\nEnddecay\nDecay anti-B0\n1.0 K(S)0 phi(1020) PHSP;\nEnddecay\n")
    pp = DecFileParser.from_string(pdg_text)
    pp.parse()
    pw = conv_tree(raw_parse(pdg_text))
    for m in ("D_s+", "B_s0", "anti-B0", "phi"):
        for st in ([], ["phi"], ["K_S0", "phi(1020)"]):
            one(pp, pw, pdg_text, m, st, "pdg-spelled-daughters")
    for missing in ("phi(1020)", "K(S)0", "B~0"):
        try:
            pp.build_decay_chains(missing)
            got = "accepted"
        except DecayNotFound:
            got = "DecayNotFound"
        except Exception as e:
            got = type(e).__name__
        res.case()
        res.count("not_found")
        if got != "DecayNotFound":
            res.violation("a particle without a table does not raise DecayNotFound", {"kind": "notfound", "text": pdg_text, "mother": missing}, impl=got, clause="not found")
    # a particle whose table exists only through CDecay: asked for while charge-conjugate decays are disabled (no table: refused),
    # then parsed again with them enabled - its chain, and the chains of its mothers, are those of a fresh instance
    cc_text = ("Alias MyD0 D0\nAlias Myanti-D0 anti-D0\nChargeConj MyD0 Myanti-D0\nAlias B0sig B0\nAlias anti-B0sig anti-B0\nChargeConj B0sig anti-B0sig\n"
               "Decay B0sig\n0.7 Myanti-D0 pi+ pi- PHSP;\n0.3 MyD0 K_S0 PHSP;\nEnddecay\nCDecay anti-B0sig\n"
               "Decay MyD0\n0.6 K- pi+ PHSP;\n0.4 K- pi+ pi0 PHSP;\nEnddecay\nCDecay Myanti-D0\nDecay pi0\n1.0 gamma gamma PHSP;\nEnddecay\n")
    fresh = DecFileParser.from_string(cc_text)
    fresh.parse()
    for asked in (["Myanti-D0"], ["anti-B0sig", "Myanti-D0"], ["B0sig"], []):
        q = DecFileParser.from_string(cc_text)
        parse_with(q, False)
        for x in asked:
            try:
                q.build_decay_chains(x)
            except Exception:
                pass
        q.parse()
        for m in ("B0sig", "anti-B0sig", "Myanti-D0", "MyD0"):
            got = chain_canon_py(q.build_decay_chains(m))
            want = chain_canon_py(fresh.build_decay_chains(m))
            res.case(canon_json([asked, m]))
            res.count("asked_while_disabled")
            if got != want:
                res.violation("after a refused request (charge-conjugate decays disabled) and a new parse, the chain is not the unfolding of the tables",
                              {"kind": "chains", "text": cc_text, "history": ["parse(include_ccdecays=False)"] + [f"build_decay_chains({x!r})" for x in asked] + ["parse()"], "mother": m},
                              impl=got, model=want, clause="unfolding")
    # small scope, exhaustively: every document of up to three statements over a vocabulary of related names; every mother, the
    # empty stable set and every single daughter of its lines as stable set
    from . import decsmall

    def acyclic(p, m, path=()):
        if m in path:
            return False
        try:
            modes = p.list_decay_modes(m)
        except Exception:
            return True
        return all(acyclic(p, d, path + (m,)) for fs in modes for d in fs)

    for doc in decsmall.docs(3, ((seed + 4) % 16, 16) if tier == "quick" else (0, 1)):
        text = render_doc(doc)
        try:
            p = DecFileParser.from_string(text)
            p.parse()
        except Exception:
            res.skipped += 1
            continue
        for m in dict.fromkeys(p.list_decay_mother_names()):
            if not acyclic(p, m):
                res.skipped += 1
                continue
            ds = list(dict.fromkeys(d for fs in p.list_decay_modes(m) for d in fs))[:4]
            for st in [[]] + [[d] for d in ds]:
                one(p, doc, text, m, st, "small-scope")
        res.count("small_scope_documents")
    # shipped files
    import glob
    import os

    files = sorted(glob.glob(REPO + "/tests/data/*.dec"))
    if tier == "thorough":
        files += [REPO + "/src/decaylanguage/data/DECAY_LHCB.DEC"]
    for f in files:
        try:
            p = DecFileParser(f)
            p.parse()
        except Exception:
            res.skipped += 1
            continue
        mothers = p.list_decay_mother_names()
        sel = mothers if (tier == "thorough" and len(mothers) < 100) else rng.sample(mothers, min(len(mothers), 6 if tier == "quick" else 60))
        for m in sel:
            # only when the unfolding is small: bound the size with a cheap path count
            try:
                want = spec_chain_bounded(p, m, 20000)
            except OverflowError:
                res.skipped += 1
                continue
            try:
                impl = chain_canon_py(p.build_decay_chains(m))
            except Exception as e:
                res.violation(f"build_decay_chains raised {type(e).__name__}", {"kind": "shipped", "file": f, "mother": m}, clause="chain")
                continue
            res.case(canon_json([os.path.basename(f), m]) if chain_size(want) > 1 + len(want[1]) else None)
            res.count("shipped_chains")
            if impl != want:
                res.violation("chain is not the recursive unfolding of the tables", {"kind": "shipped", "file": f, "mother": m}, clause="unfolding")
    batch.run()
    return res.done()


def spec_chain_bounded(p, mother, bound):
    budget = [bound]
    mothers = set(p.list_decay_mother_names())
    cache = {}

    def go(m, depth):
        if depth > 40:
            raise OverflowError
        modes = []
        for dm in p._find_decay_modes(m):
            budget[0] -= 1
            if budget[0] < 0:
                raise OverflowError
            d = p._decay_mode_details(dm, display_photos_keyword=False)
            fs = [x if x not in mothers else go(x, depth + 1) for x in d["fs"]]
            modes.append([float(d["bf"]), d["model"], params_canon_py(d["model_params"]), fs])
        return [m, modes]

    return go(mother, 0)
