"""C14: descriptor format settings are scoped and validated."""
from __future__ import annotations

import itertools

from .common import Batch, Result, canon_json, rng_for

DEFAULT = ("{mother} -> {daughters}", "({mother} -> {daughters})")
VALID = [DEFAULT, ("{mother} --> {daughters}", "[{mother} --> {daughters}]"),
         ("{daughters} <- {mother} {mother}", "<{{{mother}}}:{daughters}>"),
         # formats that share one of their two patterns with the default
         ("{mother} -> {daughters}", "[{mother} -> {daughters}]"),
         ("{mother} => {daughters}", "({mother} -> {daughters})")]
INVALID = [("{mother} -> ", "({mother} -> {daughters})"),            # lacks daughters (first pattern)
           ("{mother} -> {daughters}", "({daughters})"),             # lacks mother (second pattern)
           ("{mother} -> {daughters} {x}", "({mother} -> {daughters})"),   # another named placeholder
           ("{mother} -> {daughters}", "({mother} -> {daughters} {})"),    # anonymous placeholder
           ("{mother} -> {daughters} {0}", "({mother} -> {daughters})"),   # numbered placeholder
           ("{mother} -> {daughters}", "({mother.name} -> {daughters})"),  # attribute access is another field
           ("{mother} -> {daughters}}", "({mother} -> {daughters})"),      # malformed
           ]

# single patterns for the validation table (model against code, both directions)
PATTERN_TABLE = [
    # placeholders spelled with characters that merely look like, or normalise to, the right ones: other names, refused
    "{\uff4dother} -> {daughters}", "{mother} -> {daughter\u017f}", "{mother} --> {daughters} {\uff4dother}", "{mo\u0074\u0068er} {daughters}",
    "{m\u043ether} {daughters}", "{mother} {daughters\u00a0}", "{mother}\u00a0{daughters}", "\uff5bmother\uff5d {daughters}",
    "{mother} -> {daughters}", "{mother}{daughters}", "{daughters}{mother}{mother}", "{{x}} {mother} {daughters}",
    "{mother} {}", "{mother}", "{daughters}", "", "plain", "{mother} {daughters} {x}", "{mother:>5} {daughters!r}",
    "{mother!s:^9} {daughters:{mother}}", "{mother.a} {daughters}", "{mother[0]} {daughters}", "{mother", "mother}",
    "{mother}} {daughters}", "{{mother}} {daughters}", "{mother} {daughters} {{}}", "{mother} {daughters} {0}",
    "{ mother} {daughters}", "{mother } {daughters}", "{Mother} {daughters}", "{mother} {daughters} {mother!r}",
    "{mother} {daughters:{x}}", "{mother!} {daughters}", "{mother!rr} {daughters}", "{mother[a:b]} {daughters}",
    "{mother} {daughters}{", "}{mother} {daughters}", "{mother}\n{daughters}", "{mother}\t->\t{daughters} # c",
]


class Spec:
    """the stack model of the format in force"""

    def __init__(self):
        self.cur = DEFAULT
        self.stack = []      # (object index, saved format)
        self.objs = []

    def valid(self, p):
        return p in VALID


def run(ctx):
    from decaylanguage.utils import DescriptorFormat

    tier, seed = ctx["tier"], ctx["seed"]
    rng = rng_for(seed, "c14")
    res = Result("well-nested operation sequences over context objects (create / enter / leave normally / leave by exception / "
                 "set directly / render), exhaustive up to a length bound and random beyond, checked against a stack of formats "
                 "after every step; non-trivial = distinct sequence with a nested or re-used context")
    batch = Batch(ctx["driver_ok"])
    exh_len = 4 if tier == "quick" else 5
    n_random = 3000 if tier == "quick" else 40000
    pool_create = [VALID[0], VALID[3], INVALID[3], INVALID[0]]
    pool_set = [VALID[0], VALID[1], VALID[3], INVALID[2]]
    wide_create = [VALID[0], VALID[1], VALID[3], VALID[4], INVALID[3], INVALID[0]]
    wide_set = [VALID[0], VALID[1], VALID[2], VALID[3], VALID[4], INVALID[2]]

    def cfg():
        c = DescriptorFormat.config
        return (c["decay_pattern"], c["sub_decay_pattern"])

    def reset():
        DescriptorFormat.config = {"decay_pattern": DEFAULT[0], "sub_decay_pattern": DEFAULT[1]}

    class PresetFormat(DescriptorFormat):
        def __init__(self, a, b):
            super().__init__(a, b)

    seq_no = [0]

    def run_seq(ops, label):
        """ops: list of tuples; executes on the real class and on the stack spec, step by step"""
        seq_no[0] += 1
        reset()
        spec = Spec()
        objs = []
        wire = []
        trace = []
        bad = None
        for step, op in enumerate(ops):
            kind = op[0]
            out = "ok"
            try:
                if kind == "create":
                    # every other context object is an instance of a subclass of DescriptorFormat (a user's preset style)
                    objs.append((DescriptorFormat if (len(objs) + seq_no[0]) % 2 == 0 else PresetFormat)(*op[1]))
                    spec.objs.append(op[1])
                    wire.append(["create", op[1][0], op[1][1]])
                elif kind == "enter":
                    i = op[1]
                    wire.append(["enter", i])
                    if spec.valid(spec.objs[i]):
                        want_after = spec.objs[i]
                        spec.stack.append((i, spec.cur))
                        spec.cur = want_after
                        want_out = "ok"
                    else:
                        want_out = "rejected"
                    try:
                        objs[i].__enter__()
                    except ValueError:
                        out = "rejected"
                    if out != want_out:
                        bad = (step, f"enter: {out}, expected {want_out}")
                elif kind in ("leave", "leave_exc"):
                    i, saved = spec.stack.pop()
                    spec.cur = saved
                    wire.append(["leave", i])
                    if kind == "leave":
                        objs[i].__exit__(None, None, None)
                    else:
                        e = ValueError("boom")
                        objs[i].__exit__(ValueError, e, None)
                elif kind == "set":
                    wire.append(["set", op[1][0], op[1][1]])
                    want_out = "ok" if spec.valid(op[1]) else "rejected"
                    if want_out == "ok":
                        spec.cur = op[1]
                    try:
                        DescriptorFormat.set_config(*op[1])
                    except ValueError:
                        out = "rejected"
                    if out != want_out:
                        bad = (step, f"set_config: {out}, expected {want_out}")
                elif kind == "render":
                    wire.append(["render"])
                    got = (DescriptorFormat.format_descriptor("M", "a b", True), DescriptorFormat.format_descriptor("M", "a b", False))
                    want = (spec.cur[0].format(mother="M", daughters="a b"), spec.cur[1].format(mother="M", daughters="a b"))
                    out = ["shown", got[0], got[1]]
                    if got != want:
                        bad = (step, f"render gives {got}, the format in force gives {want}")
            except Exception as e:
                bad = (step, f"{type(e).__name__}: {e}")
            trace.append([out, cfg()[0], cfg()[1]])
            if bad is None and cfg() != spec.cur:
                bad = (step, f"format in force is {cfg()}, the stack model says {spec.cur}")
            if bad:
                break
        case = {"kind": "format-sequence", "label": label, "ops": [list(map(lambda x: list(x) if isinstance(x, tuple) else x, op)) for op in ops]}
        if bad:
            res.violation(f"step {bad[0]}: {bad[1]}", case, impl=trace, clause="scoping" if "format in force" in bad[1] or "render" in bad[1] else "validation")
        depth = 0
        maxdepth = 0
        enters = []
        for op in ops:
            if op[0] == "enter" and spec_valid(op, ops):
                depth += 1
            maxdepth = max(maxdepth, depth)
            if op[0].startswith("leave"):
                depth -= 1
            if op[0] == "enter":
                enters.append(op[1])
        nt = canon_json(case["ops"]) if (maxdepth >= 2 or len(enters) != len(set(enters))) else None
        res.case(nt, case if nt and len(res.samples) < 3 else None)
        res.count(f"len_{min(len(ops), 12)}")
        if not bad:
            def on(ans, case=case, trace=trace):
                if ans is None:
                    return
                model = [[x[0] if not isinstance(x[0], list) else x[0], x[1], x[2]] for x in ans[1]] if ans[0] == "ok" else ans
                mine = [[t[0], t[1], t[2]] for t in trace]
                if model != mine:
                    res.violation("format state machine differs from the model", case, impl=mine, model=model, clause="model tie: format state")

            batch.add(["fmt_run", wire], on)
        reset()

    def spec_valid(op, ops):
        # whether an enter succeeded: the object's patterns are valid
        created = [o[1] for o in ops if o[0] == "create"]
        return op[1] < len(created) and created[op[1]] in VALID

    def successors(ops, wide=False):
        """all well-nested continuations by one operation"""
        pc, ps = (wide_create, wide_set) if wide else (pool_create, pool_set)
        n_obj = sum(1 for o in ops if o[0] == "create")
        created = [o[1] for o in ops if o[0] == "create"]
        stack = []
        for o in ops:
            if o[0] == "enter" and created[o[1]] in VALID:
                stack.append(o[1])
            elif o[0].startswith("leave"):
                stack.pop()
        out = []
        if n_obj < 3:
            out += [("create", p) for p in pc]
        out += [("enter", i) for i in range(n_obj)]
        if stack:
            out += [("leave",), ("leave_exc",)]
        out += [("set", p) for p in ps]
        out.append(("render",))
        return out

    # fixed finding F11: an object created before an outer block and entered inside it
    run_seq([("create", VALID[1]), ("create", VALID[2]), ("enter", 1), ("enter", 0), ("leave",), ("render",), ("leave",), ("render",)], "regression F11")
    run_seq([("create", VALID[0]), ("enter", 0), ("set", VALID[1]), ("leave",), ("render",)], "regression: context equal to the format in force")
    # exhaustive
    frontier = [[]]
    for length in range(1, exh_len + 1):
        nxt = []
        for ops in frontier:
            for s in successors(ops):
                seq = ops + [s]
                nxt.append(seq)
        frontier = nxt
        for seq in frontier:
            # only run sequences that end in an observation-relevant op to save time: all of them at the last length
            if length == exh_len or seq[-1][0] in ("leave", "leave_exc", "render"):
                run_seq(seq, "exhaustive")
        if length < exh_len and len(frontier) > 60000:
            frontier = rng.sample(frontier, 60000)
    # random longer ones
    for _ in range(n_random):
        ops = []
        for _ in range(rng.randint(5, 14)):
            succ = successors(ops, wide=True)
            # favour enter / leave so that nesting gets deep
            weights = [3 if s[0] in ("enter", "leave", "leave_exc") else 1 for s in succ]
            ops.append(rng.choices(succ, weights)[0])
        run_seq(ops, "random")
    # real `with` blocks, exceptions raised in the body, object created before an outer block and entered inside it
    a = DescriptorFormat(*VALID[1])
    b = DescriptorFormat(*VALID[2])
    reset()
    try:
        with b:
            with a:
                with b:
                    raise KeyError("x")
    except KeyError:
        pass
    res.case()
    if cfg() != DEFAULT:
        res.violation("real with-blocks left by an exception do not restore the format", {"kind": "with-blocks"}, impl=cfg(), clause="scoping")
    reset()
    # validation table
    for pat in PATTERN_TABLE:
        for slot in (0, 1):
            pair = (pat, DEFAULT[1]) if slot == 0 else (DEFAULT[0], pat)
            reset()
            try:
                DescriptorFormat.set_config(*pair)
                impl_ok = True
            except ValueError:
                impl_ok = False
            except Exception as e:
                impl_ok = f"{type(e).__name__}"
            unchanged = cfg() == DEFAULT
            res.case()
            res.count("pattern_table")
            if impl_ok is not True and not unchanged:
                res.violation("a rejected pattern changed the format", {"kind": "pattern", "pattern": pat, "slot": slot}, impl=cfg(), clause="validation")
            import string

            try:
                fields = {t[1] for t in string.Formatter().parse(pat) if t[1] is not None}
                want_ok = fields == {"mother", "daughters"}
            except ValueError:
                want_ok = False
            if (impl_ok is True) != want_ok:
                res.violation("pattern validation differs from 'exactly the two placeholders'", {"kind": "pattern", "pattern": pat, "slot": slot},
                              impl=impl_ok, model=want_ok, clause="validation")

            def on(ans, pat=pat, impl_ok=impl_ok):
                if ans is not None and ans[0] == "ok" and (ans[1] == "T") != (impl_ok is True):
                    res.violation("pattern validation differs from the model", {"kind": "pattern", "pattern": pat}, impl=impl_ok, model=ans, clause="model tie: validation")

            if slot == 0:
                batch.add(["pattern_ok", pat], on)
    reset()
    batch.run()
    return res.done()
