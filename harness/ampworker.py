#!/venv/bin/python
"""A fresh interpreter that performs a list of AmpGen read / convert calls in order and prints their results as JSON.
usage: ampworker.py '<json: {"calls": [[kind, path], ...], "cache": bool}>'
kinds: cpp / py (string-returning conversion), cpp_print / py_print (conversion printing to stdout),
       read:AmplitudeChain / read:GooFitChain / read:GooFitPyChain (summary of what was read),
       emit:GooFitChain / emit:GooFitPyChain (output step for the file that class read last; the path is ignored)"""
import contextlib
import io
import json
import os
import sys
import warnings

warnings.simplefilter("ignore")
sys.path.insert(0, os.path.dirname(os.path.dirname(os.path.abspath(__file__))))


def summary(lines, states, pars=None, consts=None):
    out = {"states": [int(s.pdgid) for s in states],
           "lines": [[str(l), bool(l.fix), [round(l.amp.real, 12), round(l.amp.imag, 12)]] for l in lines]}
    if pars is not None:
        out["pars"] = [[n, bool(r["fix"]), float(r["value"]), float(r["error"])] for n, r in pars.iterrows()]
        out["consts"] = [[n, float(r["value"])] for n, r in consts.iterrows()]
    return out


def main():
    req = json.loads(sys.argv[1])
    if req.get("cache", True):
        from harness import ampcommon

        ampcommon.install_cache()
    from decaylanguage.modeling.ampgen2goofit import ampgen2goofit, ampgen2goofitpy
    from decaylanguage.modeling.amplitudechain import AmplitudeChain
    from decaylanguage.modeling.goofit import GooFitChain, GooFitPyChain

    out = []
    last_read = {}
    for kind, path in req["calls"]:
        try:
            if kind.startswith("emit:"):
                # the output step of a conversion done by hand (as the notebooks do): the introduction, the parameters and the
                # amplitude blocks of the file this reader class read last
                cls = {"GooFitChain": GooFitChain, "GooFitPyChain": GooFitPyChain}[kind[5:]]
                lines, states = last_read[kind[5:]]
                text = cls.make_intro(states) + "\n" + cls.make_pars() + "\n" + "\n".join(l.to_goofit(states[1:]) for l in lines)
                out.append(["ok", [ln for ln in text.split("\n") if ln.strip()]])
                continue
            if kind == "cpp":
                out.append(["ok", ampgen2goofit(path, ret_output=True)])
            elif kind == "py":
                out.append(["ok", ampgen2goofitpy(path, ret_output=True)])
            elif kind in ("cpp_print", "py_print"):
                buf = io.StringIO()
                with contextlib.redirect_stdout(buf):
                    r = (ampgen2goofit if kind == "cpp_print" else ampgen2goofitpy)(path)
                out.append(["ok", buf.getvalue(), r])
            elif kind.startswith("read:"):
                cls = {"AmplitudeChain": AmplitudeChain, "GooFitChain": GooFitChain, "GooFitPyChain": GooFitPyChain}[kind[5:]]
                r = cls.read_ampgen(path)
                if cls is AmplitudeChain:
                    out.append(["ok", summary(r[0], r[3], r[1], r[2])])
                else:
                    last_read[kind[5:]] = (r[0], r[1])
                    out.append(["ok", summary(r[0], r[1], cls.pars, cls.consts)])
            else:
                out.append(["err", "unknown kind"])
        except Exception as e:
            out.append(["err", f"{type(e).__name__}: {str(e)[:200]}"])
    print("\n@@RESULT@@" + json.dumps(out))


if __name__ == "__main__":
    main()
