"""C17: AmpGen option files are read into the amplitudes and tables they state."""
from __future__ import annotations

import cmath
import itertools

from . import ampcommon as A
from .common import Batch, Result, canon_json, err_class, load_corpus, rng_for


def spec_expand(doc, lookup_key):
    """the cartesian expansion, stated directly: a daughter written without its own decay is replaced by every decay
    line given separately for that name (recursively), each combination once, in file order"""
    lines = [st for st in doc if st[0] == "line"]

    def expand(d, depth=0):
        if depth > 20:
            raise RecursionError
        _, name, spin, ls, subs = d
        if subs:
            opts = [expand(s, depth + 1) for s in subs]
            return [["D", name, spin, ls, list(c)] for c in itertools.product(*opts)]
        alts = [x for st in lines if st[1][1] == name for x in expand(st[1], depth + 1)]
        return alts if alts else [d]

    ev = next(st[1] for st in doc if st[0] == "event_type")
    mother_key = lookup_key(ev[0])
    out = []
    for st in lines:
        if lookup_key(st[1][1]) == mother_key:
            for t in expand(st[1]):
                out.append((t, st))
    return out


def tree_str(d):
    _, name, spin, ls, subs = d
    return [name, spin, ls, [tree_str(s) for s in subs]]


def chain_str(line):
    return [line.name, line.spinfactor, line.lineshape, [chain_str(d) for d in line.daughters]]


def run(ctx):
    from decaylanguage.modeling.amplitudechain import AmplitudeChain
    from decaylanguage.modeling.goofit import GooFitChain, GooFitPyChain

    tier, seed = ctx["tier"], ctx["seed"]
    rng = rng_for(seed, "c17")
    res = Result("generated option texts (event types with repeated particles, 1..6 full and partial decay lines nested to depth 3, "
                 "0..3 alternative sub-lines per resonance, spin and lineshape tags, comments and blank lines, parameter and constant "
                 "lines, coherent-sum option absent/0/1) read by the three reader classes; non-trivial = distinct text in which a "
                 "partial line is expanded or the option is present")
    batch = Batch(ctx["driver_ok"])
    n_docs = 150 if tier == "quick" else 1500
    n_uncached = 3 if tier == "quick" else 30
    A.install_cache()

    def key(n):
        p = A.lookup(n)
        return A.pkey(p) if p is not None else None

    # which particle an AmpGen spelling denotes: the pinned table pinned/ampgen_names.json (an observation of the unchanged
    # tree, tools/mk_ampgen_names.py) against particle_from_string_name; every name of the generators and of the shipped model
    # on every run, a seeded sample of the rest (quick) or all of it (thorough)
    import json as _json
    import os as _os

    gold_path = _os.path.join(_os.path.dirname(_os.path.dirname(_os.path.abspath(__file__))), "pinned", "ampgen_names.json")
    if _os.path.exists(gold_path):
        gold = _json.load(open(gold_path))["names"]
        always = set(A.RES_V + A.RES_A + A.RES_S + A.RES_T + A.RES_P + A.FINAL + ["D0", "Dbar0", "D*0", "Bbar0", "B0", "K~*0", "b~", "Kbar0",
                                                                                    "Sigma(1385)bar0", "D(2)*(2460)bar0", "K*(892)bar0"])
        names = sorted(gold)
        pick = [n for n in names if n in always]
        rest = [n for n in names if n not in always]
        pick += rest if tier != "quick" else rng.sample(rest, min(len(rest), 70))
        for n in pick:
            p = A.lookup(n)
            got = int(p.pdgid) if p is not None else None
            want = gold[n] if isinstance(gold[n], int) else None
            res.case()
            res.count("ampgen_names_checked")
            if got != want:
                res.violation("an AmpGen-style particle name denotes another particle than on the unchanged tree (pinned table)",
                              {"kind": "ampgen-name", "name": n}, impl=got, model=want, clause="particle names")

    def one(doc, label, reader=AmplitudeChain):
        text = A.render_amp(doc, rng)
        case = {"kind": "amp-read", "label": label, "text": text, "reader": reader.__name__}
        try:
            wire = A.conv_amp_tree(A.raw_amp_parse(text))
            read_tie(text, "documents")
            layout_tie(wire, "documents")
        except Exception as e:
            res.violation(f"a text in the options grammar is rejected by the grammar: {type(e).__name__}", case, clause="grammar")
            res.case()
            return
        if wire != doc:
            res.violation("the parse tree does not state what was written", case, impl=wire[:3], model=doc[:3], clause="reading of the text")
        try:
            out = reader.read_ampgen(text=text)
            if reader is AmplitudeChain:
                lines, pars, consts, states = out
            else:
                lines, states = out
                pars, consts = reader.pars, reader.consts
            err = None
        except Exception as e:
            err = f"{type(e).__name__}: {str(e)[:100]}"
        has_opt = any(st[0] == "fcs" for st in doc)
        expands = any(st[0] == "line" and any(not s[4] and A.lookup(s[1]) is not None and any(l[1][1] == s[1] for l in doc if l[0] == "line")
                                              for s in _all_nodes(st[1])) for st in doc)
        nt = canon_json(text) if (has_opt or expands) else None
        res.case(nt, {"text": text[:600]} if nt and len(res.samples) < 3 else None)
        res.count("reads")
        res.count("with_option" if has_opt else "without_option")
        if err is not None:
            fk = "F7" if "children" in err else None
            res.violation(f"read_ampgen raised {err}", case, clause="every text in the grammar is read without internal error", finding_key=fk)
            return
        cart = False
        for st in doc:
            if st[0] == "fcs":
                cart = int(st[1]) != 0
        # direct statements of the property
        ev = next(st[1] for st in doc if st[0] == "event_type")
        if [A.pkey(s) for s in states] != [key(n) for n in ev]:
            res.violation("event-type particles differ", case, impl=[str(s) for s in states], model=ev, clause="event type")
        want_pars = [[st[1], int(st[2]) > 0, float(st[3]), float(st[4])] for st in doc if st[0] == "variable"]
        got_pars = [[n, bool(r["fix"]), float(r["value"]), float(r["error"])] for n, r in pars.iterrows()]
        if got_pars != want_pars:
            res.violation("parameter table is not one row per parameter line (name, fixed flag, value, error)", case, impl=got_pars, model=want_pars, clause="parameter table")
        want_c = [[st[1], float(st[2])] for st in doc if st[0] == "constant"]
        got_c = [[n, float(r["value"])] for n, r in consts.iterrows()]
        if got_c != want_c:
            res.violation("constants table is not one row per constant line", case, impl=got_c, model=want_c, clause="constants table")
        want = spec_expand(doc, key)
        if len(lines) != len(want):
            res.violation("number of amplitudes is not the size of the cartesian expansion", case, impl=[str(l) for l in lines], model=[A.render_decay(t) for t, _ in want], clause="expansion")
        else:
            for ln, (t, st) in zip(lines, want):
                if chain_str(ln) != tree_str(t):
                    res.violation("an amplitude's tree / tags are not those written (expansion in file order)", case, impl=chain_str(ln), model=tree_str(t), clause="expansion")
                    break
                v1, v2 = float(st[3]), float(st[6])
                amp = complex(v1, v2) if cart else v1 * cmath.exp(1j * v2)
                if abs(ln.amp - amp) > 1e-12 * max(1.0, abs(amp)):
                    res.violation("coupling is not magnitude*exp(i phase) (or real + i imaginary with the cartesian option)", case, impl=str(ln.amp), model=str(amp), clause="coupling")
                    break
                fix = not (int(st[2]) > 0 and int(st[5]) > 0)
                if ln.fix != fix:
                    res.violation("fixed flag of the amplitude differs", case, impl=ln.fix, model=fix, clause="coupling")
                    break
        # model
        impl_lines = [A.chain_canon_py(l) for l in lines]
        impl_amps = [l.amp for l in lines]

        def on(ans, case=case, impl_lines=impl_lines, impl_amps=impl_amps, got_pars=got_pars, got_c=got_c, cls=reader):
            if ans is None:
                return
            if ans[0] != "ok":
                res.violation("the model rejects the text", case, model=ans, clause="model tie: read_ampgen")
                return
            out, st = ans[1]
            m_lines = [A.chain_canon_wire(w) for w in out[3]]
            if m_lines != impl_lines:
                res.violation("amplitudes differ from the model", case, impl=impl_lines[:3], model=m_lines[:3], clause="model tie: amplitudes")
                return
            for w, a in zip(out[3], impl_amps):
                fixm, cartm, v1, v2 = w[4][0] == "T", w[4][1] == "T", float(w[4][2]), float(w[4][3])
                am = complex(v1, v2) if cartm else v1 * cmath.exp(1j * v2)
                if abs(a - am) > 1e-12 * max(1.0, abs(am)):
                    res.violation("coupling differs from the model", case, impl=str(a), model=str(am), clause="model tie: coupling")
                    return
            m_pars = [[n, f == "T", float(v), float(e)] for n, f, v, e in out[1]]
            m_c = [[n, float(v)] for n, v in out[2]]
            if m_pars != got_pars or m_c != got_c:
                res.violation("tables differ from the model", case, impl=[got_pars, got_c], model=[m_pars, m_c], clause="model tie: tables")
            if sorted(st[0]) != sorted(A.pkey(p) for p in cls.all_particles) or sorted(st[1]) != sorted(A.pkey(p) for p in cls.final_particles):
                res.violation("class-level particle sets differ from the model", case,
                              impl=[sorted(A.pkey(p) for p in cls.all_particles), sorted(A.pkey(p) for p in cls.final_particles)], model=[sorted(st[0]), sorted(st[1])],
                              clause="model tie: reader state")

        # the class-level sets are read when the continuation runs: snapshot them now
        snap_all = set(reader.all_particles)
        snap_fin = set(reader.final_particles)

        class Snap:
            all_particles = snap_all
            final_particles = snap_fin

        batch.add(["amp_read", "gen", A.lookup_table(doc), [[], [], False], A.amp_doc_wire(doc)],
                  lambda ans, f=on, S=Snap: f(ans, cls=S))

    # ---- the text reader: Lark on the repository's grammar against the Lean reader (DL/Model/AmpRead.lean)
    from lark.exceptions import LarkError

    from . import ampreadgen as G

    def dec_decay(x):
        return ["D", x[1], None if x[2] == "N" else x[2][0], None if x[3] == "N" else x[3][0], [dec_decay(y) for y in x[4]]]

    def dec_stmt(x):
        return [x[0], dec_decay(x[1])] + x[2:] if x[0] == "line" else x

    def int_ok(doc):
        try:
            for st in doc:
                if st[0] == "variable":
                    int(st[2])
                elif st[0] == "line":
                    int(st[2]), int(st[5])
                elif st[0] in ("fcs", "nevents"):
                    int(st[1])
            return True
        except ValueError:
            return False

    def read_tie(text, stream, intended=None):
        case = {"kind": "amp-text", "stream": stream, "text": text}
        try:
            lark_doc = A.conv_amp_tree(A.raw_amp_parse(text))
        except LarkError:
            lark_doc = None
        res.case()
        res.count("reader_" + stream)
        if lark_doc is not None:
            res.count("reader_" + stream + "_accepted")
        if intended is not None and lark_doc != intended:
            res.violation("a well-formed option text is not read as the statements written", case, impl=lark_doc, model=intended, clause="reading of the text")

        def on(ans, case=case, lark_doc=lark_doc):
            if ans is None:
                return
            if ans[0] != "ok":
                got, flags = None, None
            else:
                got, flags = [dec_stmt(x) for x in ans[1][0]], ans[1][1] == "T"
            if got != lark_doc:
                res.violation("the model reader and the grammar disagree on a text", case, impl=lark_doc, model=got, clause="model tie: reader", tie_only=True)
            elif got is not None and flags != int_ok(lark_doc):
                res.violation("the model reader and int() disagree on which flags are integers", case, impl=int_ok(lark_doc), model=flags, clause="model tie: reader", tie_only=True)

        batch.add(["amp_text", text], on)

    def layout_tie(doc, stream):
        """the round-trip theorem C17_read_layout on the real parser: the model renders the statements under a layout drawn from a
        seed; where the theorem's hypotheses hold, the real parser must read that very text as the statements"""
        lseed = rng.randrange(1 << 48)

        def on(ans, doc=doc, lseed=lseed, stream=stream):
            if ans is None:
                return
            case = {"kind": "amp-layout", "stream": stream, "layout_seed": lseed, "doc": doc[:6]}
            if ans[0] != "ok":
                res.violation("the model cannot render the statements", case, model=ans, clause="model tie: layout theorem")
                return
            text, gl, gs = ans[1]
            res.count("theorem_layouts")
            if gl != "T":
                res.violation("a generated layout does not meet the theorem's hypotheses", case, clause="model tie: layout theorem (hypotheses)")
                return
            if gs != "T":
                res.count("theorem_layouts_outside_hypotheses")
                return
            res.count("theorem_layouts_in_hypotheses")
            case["text"] = text
            try:
                got = A.conv_amp_tree(A.raw_amp_parse(text))
            except LarkError as e:
                res.violation(f"a text the round-trip theorem covers is rejected by the grammar: {type(e).__name__}", case, clause="grammar")
                return
            res.case(canon_json(text))
            if got != doc:
                res.violation("a text the round-trip theorem covers is not read as the statements it renders", case, impl=got[:4], model=doc[:4],
                              clause="model tie: layout theorem")

        batch.add(["amp_render_layout", lseed, doc], on)

    n_well = 400 if tier == "quick" else 4000
    n_mal = 600 if tier == "quick" else 6000
    wells = []
    for t in dict.fromkeys(G.FIXED):
        read_tie(t, "fixed")
    for _ in range(n_well):
        t, intended = G.gen_well(rng)
        wells.append(t)
        read_tie(t, "well", intended)
        layout_tie(intended, "well")
    for _ in range(n_mal):
        t = G.gen_mal(rng, wells)
        if "\x00" not in t:
            read_tie(t, "malformed")

    for fname, c in load_corpus("C17"):
        one(c["doc"], "corpus:" + fname)
    readers = [AmplitudeChain, GooFitChain, GooFitPyChain]
    # the event-type mother written in one accepted spelling on the EventType line and in another on (some of) its decay lines:
    # a line belongs to the mother when it names the same PARTICLE; and the option texts of other event-type families
    for mo_ev, mo_lines in (("omega(782)", ["omega(782)0", "omega(782)0"]), ("omega(782)0", ["omega(782)", "omega(782)0"]),
                            ("phi(1020)0", ["phi(1020)", "phi(1020)0"]), ("eta", ["eta0", "eta"])):
        doc = [["event_type", [mo_ev, "pi+", "pi-", "pi0"]]]
        for nm in mo_lines:
            doc.append(["line", ["D", nm, None, None, [A.two_body(rng, "rho(770)0", tag=False), ["D", "pi0", None, None, []]]]] + A.coupling(rng))
        doc.append(["line", ["D", mo_ev, rng.choice([None, "P"]), None, [["D", "rho(770)0", None, None, []], ["D", "pi0", None, None, []]]]] + A.coupling(rng))
        doc.append(["line", A.two_body(rng, "rho(770)0", tag=False)] + A.coupling(rng))
        for k, rd in enumerate(readers):
            one(doc, "mother-spellings", rd)
    for doc, ev in A.other_family_docs():
        one(doc, "other-families", readers[len(ev) % 3])
    # a partial daughter that is also one of the final-state particles of the event type, with separately written decays (a K(S)0
    # of the final state reconstructed in two modes): it is replaced by every one of them like any other partial daughter
    leaf = lambda n_: ["D", n_, None, None, []]
    for fsname, modes in (("K(S)0", [("pi+", "pi-"), ("pi0", "pi0")]), ("pi0", [("gamma", "gamma")]), ("eta", [("gamma", "gamma"), ("pi0", "pi0")])):
        doc = [["event_type", ["D0", fsname, "pi+", "pi-"]],
               ["line", ["D", "D0", None, None, [leaf(fsname), A.two_body(rng, "rho(770)0", tag=False)]]] + A.coupling(rng)]
        for k_, (a_, b_) in enumerate(modes):
            doc.append(["line", ["D", fsname, "S" if k_ else None, None, [leaf(a_), leaf(b_)]]] + A.coupling(rng))
        for rd in readers:
            one(doc, "final-state-particle-with-own-decays", rd)
    # few lines, deep nesting: a partial daughter several levels down in a file of only one to three decay lines (each written
    # line may supply several levels of nesting by itself); reading only - these five-body event types are not converted
    deep = [("B-", ["K-", "pi+", "pi-", "pi+", "pi-"], ["D", "B-", None, None, [["D", "D0", None, None, [["D", "K(1)(1270)bar-", None, None,
             [["D", "rho(770)0", None, None, []], ["D", "K-", None, None, []]]], ["D", "pi+", None, None, []]]], ["D", "pi-", None, None, []]]], ["rho(770)0"]),
            ("B-", ["K-", "pi+", "pi-", "pi+", "pi-"], ["D", "B-", None, None, [["D", "D0", None, None, [["D", "K(1)(1270)bar-", None, None, []], ["D", "pi+", None, None, []]]],
                                                                        ["D", "pi-", None, None, []]]], ["K(1)(1270)bar-", "rho(770)0"])]
    for mo, fs, top, partials in deep:
        for n_alt in (1, 2):
            doc = [["event_type", [mo] + fs], ["line", top] + A.coupling(rng)]
            for nm in partials:
                for _ in range(n_alt if nm == partials[-1] else 1):
                    if nm in A.PAIRS:
                        doc.append(["line", A.two_body(rng, nm, tag=False)] + A.coupling(rng))
                    else:
                        doc.append(["line", ["D", nm, None, None, [["D", "rho(770)0", None, None, []], ["D", "K-", None, None, []]]]] + A.coupling(rng))
            for rd in readers:
                one(doc, "few-lines-deep-nesting", rd)
    for i in range(n_docs):
        doc, ev = A.gen_amp_doc(rng)
        one(doc, "generated", readers[i % 3])
    # a few reads without the memoised look-up
    A.uninstall_cache()
    for i in range(n_uncached):
        doc, ev = A.gen_amp_doc(rng, n_lines=2, params=False)
        one(doc, "uncached", AmplitudeChain)
    A.install_cache()
    batch.run()
    return res.done()


def _all_nodes(d):
    out = [d]
    for s in d[4]:
        out += _all_nodes(s)
    return out
