"""C18: each amplitude is emitted with exactly its Bose-symmetrised permutations."""
from __future__ import annotations

import itertools
import re

from . import ampcommon as A
from .common import Batch, Result, canon_json, rng_for


def brute_perms(structure, fs):
    """all one-to-one assignments of the amplitude's final-state particles to positions of identical particles"""
    out = []
    for a in itertools.product(range(len(fs)), repeat=len(structure)):
        if len(set(a)) == len(a) and all(fs[i] == s for i, s in zip(a, structure)):
            out.append(list(a))
    return out


def tree_shapes(leaves):
    """all binary-ish decay trees over an ordered list of leaves (a node has two daughters; a daughter is a leaf or a node)"""
    if len(leaves) == 1:
        return [leaves[0]]
    out = []
    for k in range(1, len(leaves)):
        for l in tree_shapes(leaves[:k]):
            for r in tree_shapes(leaves[k:]):
                out.append([l, r])
    return out


# the structure is cut out of the emitted text with patterns that tolerate any spacing (the exact text is compared separately,
# as a correspondence that the property does not determine)
SF_RE_CPP = re.compile(r'new\s+SpinFactor\(\s*"SF"\s*,\s*SF_4Body::(\w+)\s*,\s*([\d,\s]+?)\s*\)')
SF_RE_PY = re.compile(r'(?<![\w:])SpinFactor\(\s*"SF"\s*,\s*SF_4Body\.(\w+)\s*,\s*([\d,\s]+?)\s*\)')
LS_RE = re.compile(r'(?:new\s+Lineshapes::|Lineshapes\.)(RBW|GSpline|kMatrix|FOCUS)\(\s*"([^"]*)"\s*,\s*(.*?)(?:,\s*FF(?:::|\.)BL2)', re.S)
N_RE_CPP = re.compile(r"spin_factor_list\.back\(\)\s*,\s*(\d+)\s*\}\s*\)\s*;")
N_RE_PY = re.compile(r"spin_factor_list\[-1\]\s*,\s*(\d+)\s*\)\s*\)")


def parse_amp_text(text, py):
    sfs = [[m.group(1), [int(x) for x in m.group(2).split(",")]] for m in (SF_RE_PY if py else SF_RE_CPP).finditer(text)]
    lss = []
    for m in LS_RE.finditer(text):
        kind, name, rest = m.group(1), m.group(2), m.group(3)
        args = [a.strip() for a in rest.replace("\n", " ").split(",")]
        # ... prog_M, prog_W, L, masses   are the last four arguments before FF::BL2
        masses = args[-1]
        L = int(args[-2])
        prog = args[-4][:-2] if args[-4].endswith("_M") else args[-4]
        extra = args[:-4]
        # what follows FF.BL2 up to the closing parenthesis of the call: the radius and, for a spline, its (min, max, bins)
        depth, k = 1, m.end()
        while k < len(text) and depth > 0:
            depth += {"(": 1, ")": -1}.get(text[k], 0)
            k += 1
        tail = text[m.end():k - 1]
        nums = re.findall(r"(?<![\w.])[-+]?\d+(?:\.\d*)?(?:[eE][-+]?\d+)?(?![\w.])", tail)
        radius = float(nums[0]) if nums else None
        triple = [float(x) for x in nums[1:4]] if len(nums) >= 4 else None
        lss.append([kind, name, prog, L, masses, extra, radius, triple])
    n = (N_RE_PY if py else N_RE_CPP).search(text)
    return sfs, lss, int(n.group(1)) if n else None


def node_wire(line, tree=None):
    """the node as the model takes it: particle attributes from the real object (oracle); the spin and lineshape tags from the
    written tree when it is given (so that a tag lost while reading shows), else from the object"""
    p = line.particle
    quarks = (p.quarks or "")
    if tree is not None and len(tree[4]) == len(line.daughters):
        spin, ls, subs = tree[2], tree[3], [node_wire(d, t) for d, t in zip(line.daughters, tree[4])]
    else:
        spin, ls, subs = line.spinfactor, line.lineshape, [node_wire(d) for d in line.daughters]
    return [line.name if line.daughters else p.name, p.spin_type.name, int(round(2 * float(p.J))) if p.J is not None else 0, "c" in quarks.lower(), p.programmatic_name,
            spin, ls, subs]


def run(ctx):
    from decaylanguage.modeling.decay import ModelDecay
    from decaylanguage.modeling.goofit import GooFitChain, GooFitPyChain

    tier, seed = ctx["tier"], ctx["seed"]
    rng = rng_for(seed, "c18")
    res = Result("exhaustive: all binary decay-tree shapes over final states of up to 4 particles with every multiplicity pattern x "
                 "every ordering of the event type (permutation sets); generated four-body option files over the supported spin "
                 "structures, both topologies, all four lineshape kinds, identical resonances, both output languages (emitted "
                 "blocks parsed back); non-trivial = distinct (amplitude, event type) with a repeated final-state particle")
    batch = Batch(ctx["driver_ok"])
    # ---- permutation sets, exhaustively
    patterns = [["a"], ["a", "b"], ["a", "a"], ["a", "b", "c"], ["a", "a", "b"], ["a", "a", "a"],
                ["a", "b", "c", "d"], ["a", "a", "b", "c"], ["a", "a", "b", "b"], ["a", "a", "a", "b"], ["a", "a", "a", "a"]]

    def build(t):
        if isinstance(t, str):
            return ModelDecay(t, [], name=t)
        return ModelDecay("M", [build(x) for x in t], name="M")

    def flat(t):
        return [t] if isinstance(t, str) else [y for x in t for y in flat(x)]

    for pat in patterns:
        orders = sorted(set(itertools.permutations(pat)))
        for leaves in orders:
            for shape in tree_shapes(list(leaves)):
                if isinstance(shape, str):
                    continue
                md = build(shape)
                for ev in orders:
                    fs = list(ev)
                    case = {"kind": "perms", "tree": shape, "event_type": fs}
                    want = brute_perms(flat(shape), fs)
                    try:
                        got = [list(a) for a in md.list_structure(fs)]
                    except Exception as e:
                        got = f"{type(e).__name__}"
                    res.case(canon_json(case) if len(set(fs)) < len(fs) else None, case if len(res.samples) < 2 and len(set(fs)) < len(fs) else None)
                    res.count("perm_cases")
                    if got != want:
                        res.violation("permutations are not exactly the one-to-one assignments to positions of identical particles", case, impl=got, model=want, clause="permutation set")

                    def on(ans, case=case, got=got):
                        if ans is None:
                            return
                        m = [[int(x) for x in a] for a in ans[1]] if ans[0] == "ok" else ans[1]
                        if m != got:
                            res.violation("list_structure differs from the model", case, impl=got, model=m, clause="model tie: listStructure")

                    batch.add(["perms", flat(shape), fs], on)
        # an event type that lacks a particle of the amplitude
        md = build([pat[0], "zz"])
        try:
            md.list_structure(list(pat))
            got = "accepted"
        except RuntimeError:
            got = "RuntimeError"
        res.case()
        if got != "RuntimeError":
            res.violation("an amplitude with a particle outside the event type is not refused", {"kind": "perms-missing", "event_type": pat}, impl=got, clause="permutation set")
    # ---- a chain that uses fewer copies of a particle than the event type has (a sub-chain of an amplitude asked for its
    # permutations, an event type with a spare copy or with further particles): the assignments are still exactly the one-to-one ones
    from collections import Counter

    for pat in patterns:
        for big in patterns:
            if len(big) <= len(pat) or Counter(pat) - Counter(big):
                continue
            for shape in tree_shapes(list(pat)):
                if isinstance(shape, str):
                    continue
                md = build(shape)
                for ev in sorted(set(itertools.permutations(big))):
                    fs = list(ev)
                    case = {"kind": "perms", "tree": shape, "event_type": fs, "note": "the event type has more particles than the chain uses"}
                    want = brute_perms(flat(shape), fs)
                    try:
                        got = [list(a) for a in md.list_structure(fs)]
                    except Exception as e:
                        got = f"{type(e).__name__}"
                    res.case(canon_json(case))
                    res.count("perm_cases_larger_event_type")
                    if got != want:
                        res.violation("permutations are not exactly the one-to-one assignments to positions of identical particles", case, impl=got, model=want, clause="permutation set")

                    def on2(ans, case=case, got=got):
                        if ans is None:
                            return
                        m = [[int(x) for x in a] for a in ans[1]] if ans[0] == "ok" else ans[1]
                        if m != got:
                            res.violation("list_structure differs from the model", case, impl=got, model=m, clause="model tie: listStructure")

                    batch.add(["perms", flat(shape), fs], on2)
    # ---- emitted blocks
    A.install_cache()
    n_docs = 40 if tier == "quick" else 500

    emit_n = [0]
    PLAIN_MODEL = "EventType D0 K- pi+ pi+ pi-\nD0{K*(892)bar0{K-,pi+},rho(770)0{pi+,pi-}}   2 1 0   2 0 0\n"
    CONJ_MODEL = "EventType Dbar0 K+ pi- pi- pi+\nDbar0{K*(892)0{K+,pi-},rho(770)0{pi-,pi+}}   2 1 0   2 0 0\n"
    emit_docs = [A.gen_emit_doc(rng, unsupported=True) for _ in range(n_docs)] + A.other_family_docs()
    for doc, ev in emit_docs:
        text = A.render_amp(doc)
        for cls, py in ((GooFitChain, False), (GooFitPyChain, True)):
            case = {"kind": "emit", "text": text, "language": "python" if py else "c++"}
            try:
                lines, states = cls.read_ampgen(text=text)
            except Exception as e:
                res.violation(f"read_ampgen raised {type(e).__name__}: {e}", case, clause="conversion")
                res.case()
                continue
            emit_n[0] += 1
            if emit_n[0] % 3 == 0 and "GSpline" not in text:
                # lines kept from one read, another model read by the same class (the conjugate event type, whose final state
                # shares no charged kaon / pion sign pattern with most of the generated ones), then the kept lines emitted
                # against their own event type: the permutations are those of the amplitude and ITS event type
                try:
                    cls.read_ampgen(text=CONJ_MODEL if "K+" not in ev else PLAIN_MODEL)
                    case["history"] = ["read_ampgen(this text)", "read_ampgen(another model, same class)", "to_goofit(states[1:]) on the lines of this text"]
                    res.count("emitted_after_another_read")
                except Exception:
                    pass
            fs_names = [n for n in ev[1:]]
            seen_order = []
            written = [st[1] for st in doc if st[0] == "line"]
            trees = written if len(written) == len(lines) else [None] * len(lines)     # these files have no partial lines: one amplitude per line
            for ln, wtree in zip(lines, trees):
                sub = dict(case, amplitude=str(ln))
                try:
                    out = ln.to_goofit(states[1:])
                except Exception as e:
                    out = None
                    err = type(e).__name__
                want_perms = brute_perms([str(p) for p in _flat_particles(ln)], [str(s) for s in states[1:]])
                res.case(canon_json([str(ln), ev, py]) if len(want_perms) > 1 else None, {"amplitude": str(ln), "event_type": ev} if len(res.samples) < 4 and len(want_perms) > 1 else None)
                res.count("emitted_amplitudes")
                if out is None:
                    def on_err(ans, sub=sub, err=err):
                        if ans is not None and ans[0] == "ok":
                            res.violation(f"to_goofit raised {err} for a supported amplitude", sub, model="emits", clause="emission")
                    batch.add(["emit_amp", node_wire(ln), [str(int(s.pdgid)) for s in states[1:]]], on_err) if False else None
                    res.violation(f"to_goofit raised {err}", sub, clause="emission") if err not in ("LineFailure",) else None
                    continue
                sfs, lss, n = parse_amp_text(out, py)
                # direct statements
                perms_in_sf = []
                for name, perm in sfs:
                    if perm not in perms_in_sf:
                        perms_in_sf.append(perm)
                if perms_in_sf != want_perms:
                    res.violation("spin factors do not carry exactly the permutations of the amplitude", sub, impl=perms_in_sf, model=want_perms, clause="spin factors per permutation")
                if n != len(want_perms):
                    res.violation("declared number of permutations differs", sub, impl=n, model=len(want_perms), clause="declared count")
                nv = len(ln.vertexes)
                if len(lss) != nv * len(want_perms):
                    res.violation("not one lineshape per resonance per permutation", sub, impl=len(lss), model=nv * len(want_perms), clause="lineshapes per permutation")

                def on(ans, sub=sub, sfs=sfs, lss=lss, n=n):
                    if ans is None:
                        return
                    if ans[0] != "ok":
                        res.violation("the model refuses an amplitude the code emits", sub, model=ans, clause="model tie: emission")
                        return
                    msf = [[x[0], [int(i) for i in x[1]]] for x in ans[1][0]]
                    mls = [[x[0][0], x[1], x[2], int(x[3]), x[4]] for x in ans[1][1]]
                    ils = [l[:5] for l in lss]
                    if msf != sfs:
                        res.violation("spin-factor block differs from the model", sub, impl=sfs[:6], model=msf[:6], clause="model tie: spin factors")
                    elif mls != ils:
                        res.violation("lineshape block differs from the model (kind, resonance, L, invariant-mass indices from the same permutation)", sub,
                                      impl=ils[:6], model=mls[:6], clause="model tie: lineshapes")
                    elif [None if x[0][0] == "RBW" else int(x[5]) / 10 for x in ans[1][1]] != [l[6] for l in lss]:
                        res.violation("the radius written with a lineshape differs from the model (5.0 for a resonance with charm content, else 1.5)", sub,
                                      impl=[l[6] for l in lss][:6], model=[None if x[0][0] == "RBW" else int(x[5]) / 10 for x in ans[1][1]][:6],
                                      clause="model tie: lineshapes")
                    elif int(ans[1][2]) != n:
                        res.violation("declared count differs from the model", sub, impl=n, model=ans[1][2], clause="model tie: count")

                batch.add(["emit_amp", node_wire(ln, wtree), [s.name for s in states[1:]]], on)

                # the text itself, character for character, against the model's rendering of the same emission
                def on_text(ans, sub=sub, out=out):
                    if ans is None:
                        return
                    if ans[0] != "ok":
                        res.violation("the model refuses an amplitude the code emits", sub, model=ans, clause="model tie: emission")
                    elif ans[1] != out:
                        a, b = ans[1].split("\n"), out.split("\n")
                        k = next((i for i, (x, y) in enumerate(zip(a, b)) if x != y), min(len(a), len(b)))
                        res.stricter("the emitted text differs from the model's text (first differing line shown)", sub,
                                     impl=b[k] if k < len(b) else "<end>", model=a[k] if k < len(a) else "<end>", clause="model tie: emitted text")

                batch.add(["emit_text", py, node_wire(ln, wtree), [s.name for s in states[1:]], text_oracles(ln)[0], text_oracles(ln)[1], bool(ln.fix),
                           [f"{ln.amp.real:.6}", f"{ln.err.real:.6}", f"{ln.amp.imag:.6}", f"{ln.err.imag:.6}"], spline_consts(doc)], on_text)
                res.count("texts_compared")
                seen_order.append(str(ln))
            if len(seen_order) != len(set(seen_order)) and False:
                pass
    batch.run()
    return res.done()


def text_oracles(line):
    """per decaying node: the particle's display name (for str(line)) and the programmatic spelling of the name as written
    (for the spline array) - values of the `particle` package"""
    from decaylanguage.modeling.goofit import programmatic_name

    pn, sa = {}, {}

    def walk(l):
        if l.daughters:
            pn[l.name] = str(l.particle)
            if l.lineshape == "GSpline.EFF":
                sa[l.name] = programmatic_name(l.name)
            for d in l.daughters:
                walk(d)

    walk(line)
    return [[k, v] for k, v in pn.items()], [[k, v] for k, v in sa.items()]


def spline_consts(doc):
    """(Min, Max, int(N)) per spline resonance as the emitters format them, from the constants written in the document"""
    vals = {}
    for st in doc:
        if st[0] == "constant" and "::Spline::" in st[1]:
            nm, key = st[1].split("::Spline::")
            vals.setdefault(nm, {})[key] = float(st[2])
    return [[nm, str(v["Min"]), str(v["Max"]), str(int(v["N"]))] for nm, v in vals.items() if {"Min", "Max", "N"} <= set(v)]


def _flat_particles(line):
    if not line.daughters:
        return [line.particle]
    out = []
    for d in line.daughters:
        out += _flat_particles(d)
    return out
