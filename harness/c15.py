"""C15: the chain graph has one node and one labelled edge per decay line."""
from __future__ import annotations

import re
import subprocess
from html import escape as _html_escape

from . import gen
from .c11 import build_chain
from .common import Batch, Result, canon_json, conv_tree, raw_parse, render_doc, rng_for

NODE_RE = re.compile(r"^\t(\"?[^\s\[\"]+\"?) \[label=<(.*)>(.*)\]$")
EDGE_RE = re.compile(r"^\t(\"?[^\s\"]+\"?) -> (\"?[^\s\"]+\"?) \[label=(.*)\]$")
TD_RE = re.compile(r"<TD([^>]*)>(.*?)</TD>")


def parse_dot(src: str, labels=None):
    nodes, edges = [], []
    labels = [] if labels is None else labels
    for line in src.split("\n"):
        m = EDGE_RE.match(line)
        if m:
            edges.append([m.group(1).strip('"'), m.group(2).strip('"'), m.group(3).strip('"')])
            continue
        m = NODE_RE.match(line)
        if m and m.group(1) not in ("graph", "node", "edge"):
            cells = TD_RE.findall(m.group(2))
            ports = [re.search(r'PORT="(p\d+)"', a) for a, _ in cells]
            has_ports = all(ports) and len(cells) > 0
            if has_ports and [p.group(1) for p in ports] != [f"p{i}" for i in range(len(cells))]:
                has_ports = "misnumbered"
            # a decay line without daughters is drawn with one empty cell (a row without a cell is not valid)
            shown = [c for _, c in cells]
            if shown == [""]:
                shown, has_ports = [], False
            nodes.append([m.group(1).strip('"'), shown, has_ports])
            labels.append("<" + m.group(2) + ">")
    return nodes, edges


_html = {}


def html_name(name: str) -> str:
    if name not in _html:
        from particle import latex_to_html_name
        from particle.converters.bimap import DirectionalMaps

        if "maps" not in _html:
            _html["maps"] = DirectionalMaps("EvtGenName", "LaTexName")
        try:
            _html[name] = latex_to_html_name(_html["maps"][0][name])
        except Exception:
            # any other name is shown as text: the three markup characters escaped (finding F17)
            _html[name] = _html_escape(name, quote=False)
    return _html[name]


def table_spelling(name: str):
    """the HTML spelling the particle package has for an EvtGen name (oracle for the model), or None"""
    html_name(name)
    try:
        _html["maps"][0][name]
    except Exception:
        return None
    return _html[name]


def chain_names(cd: dict):
    (mother, modes), = cd.items()
    out = [mother]
    for m in modes:
        for it in m["fs"]:
            out.extend([it] if isinstance(it, str) else chain_names(it))
    return out


def chain_wire_lbl(cd: dict):
    (mother, modes), = cd.items()
    out = ["C", mother]
    for m in modes:
        items = [["L", it] if isinstance(it, str) else ["S", chain_wire_lbl(it)] for it in m["fs"]]
        out.append(["M", str(m["bf"]), items])
    return out


def spec_graph(cd: dict, start: int):
    """independent statement of the property: root, then per line one node + one edge, depth first"""
    (mother, modes), = cd.items()
    nodes = [["mother", [mother], True]]
    edges = []
    counter = [start]

    def lines(modes, src):
        for m in modes:
            ref = f"dec{counter[0]}"
            counter[0] += 1
            names = [it if isinstance(it, str) else next(iter(it)) for it in m["fs"]]
            nodes.append([ref, names, any(not isinstance(it, str) for it in m["fs"])])
            edges.append([src, ref, str(m["bf"])])
            for i, it in enumerate(m["fs"]):
                if not isinstance(it, str):
                    lines(it[next(iter(it))], f"{ref}:p{i}")

    lines(modes, "mother")
    return nodes, edges, counter[0]


def run(ctx):
    from decaylanguage import DecayChainViewer, DecFileParser

    tier, seed = ctx["tier"], ctx["seed"]
    rng = rng_for(seed, "c15")
    res = Result("chain dictionaries from generated table sets (several lines per particle, repeated decaying daughters, "
                 "empty tables, EvtGen spellings) and from DecayChain.to_dict(); sessions of several viewers with varied "
                 "graph attributes; non-trivial = distinct chain with >= 2 lines below the root node")
    batch = Batch(ctx["driver_ok"])
    n_docs = 120 if tier == "quick" else 1500
    seen_ids = {}
    dot_budget = [40 if tier == "quick" else 400]

    def one(cd, label, attrs):
        case = {"kind": "graph", "label": label, "chain": canon_json(cd)[:1500], "attrs": {k: str(v) for k, v in attrs.items()}}
        try:
            v = DecayChainViewer(cd, **attrs)
            src = v.to_string()
        except Exception as e:
            res.violation(f"viewer raised {type(e).__name__}: {e}", case, clause="graph")
            res.case()
            return
        labels = []
        nodes, edges = parse_dot(src, labels)
        ids = [n[0] for n in nodes if n[0] != "mother"]
        start = int(ids[0][3:]) if ids and ids[0].startswith("dec") and ids[0][3:].isdigit() else 0
        wn, we, end = spec_graph(cd, start)
        wn_html = [[i, [html_name(c) for c in cells], p] for i, cells, p in wn]
        # nodes that carry ports show them as p0..pk; nodes without sub-chain have no ports
        got_nodes = [[i, cells, bool(p) if p != "misnumbered" else p] for i, cells, p in nodes]
        if got_nodes != wn_html:
            res.violation("nodes are not: root + one node per decay line listing its daughters in order", case,
                          impl=got_nodes[:8], model=wn_html[:8], clause="nodes")
        if edges != we:
            res.violation("edges are not: one per decay line, from the root or the slot of the decaying daughter, labelled with the bf", case,
                          impl=edges[:8], model=we[:8], clause="edges")
        if len(set(ids)) != len(ids):
            res.violation("node identifiers repeat within a graph", case, impl=ids, clause="identifiers")
        for i in ids:
            if i in seen_ids:
                res.violation("node identifier already used by an earlier graph of this session", dict(case, earlier=seen_ids[i]), impl=i, clause="identifiers across graphs")
                break
        for i in ids:
            seen_ids[i] = label + ":" + canon_json(case["attrs"])
        if dot_budget[0] > 0:
            dot_budget[0] -= 1
            p = subprocess.run(["dot", "-Tsvg"], input=src.encode(), capture_output=True)
            res.count("dot_runs")
            if p.returncode != 0:
                res.violation("output not accepted by Graphviz", case, impl=p.stderr.decode()[:300], clause="graphviz")
        n_lines = len(we)
        nt = canon_json(cd) if n_lines >= 3 else None
        res.case(nt, {"nodes": got_nodes[:4], "edges": edges[:4]} if nt and len(res.samples) < 3 else None)
        res.count("graphs")

        def on(ans, case=case, got_nodes=got_nodes, edges=edges, wn=wn, start=start):
            if ans is None:
                return
            if ans[0] != "ok":
                res.violation("model rejects the chain", case, model=ans, clause="model tie: graph")
                return
            g, n2 = ans[1]
            mn = [[n[0], [html_name(c) for c in n[1]], n[2] == "T"] for n in g[0]]
            me = [list(e) for e in g[1]]
            if mn != got_nodes or me != edges:
                res.violation("graph differs from the model", case, impl=[got_nodes[:6], edges[:6]], model=[mn[:6], me[:6]], clause="model tie: graph")

        batch.add(["graph", start, chain_wire_lbl(cd)], on)

        def on_labels(ans, case=case, labels=labels):
            if ans is None:
                return
            if not isinstance(ans, list) or ans[0] != "ok":
                res.violation("model rejects the chain", case, model=ans, clause="model tie: labels")
                return
            if list(ans[1]) != labels:
                bad = [(a, b) for a, b in zip(ans[1], labels) if a != b][:2]
                res.violation("the label text of a node differs from the model (html_table_label)", case,
                              impl=[b for _, b in bad] or len(labels), model=[a for a, _ in bad] or len(ans[1]), clause="model tie: labels", tie_only=True)

        tbl = sorted({n: table_spelling(n) for n in chain_names(cd)}.items())
        batch.add(["graph_labels", start, [[k, v] for k, v in tbl if v is not None], chain_wire_lbl(cd)], on_labels)
        res.count("labels_compared", len(labels))

    attr_choices = [{}, {}, {}, {"name": "G1"}, {"name": "DecayChainGraph"}, {"format": "svg"}, {"node_attr": {"fontsize": "9"}},
                    {"name": "other", "graph_attr": {"rankdir": "TB"}}, {"edge_attr": {"fontcolor": "#000000"}}, {"name": "G1"}]
    for i in range(n_docs):
        doc, info = gen.gen_tables(rng, aliases=False, max_lines=rng.choice([1, 2, 3, 4, 5]), max_ds=4, depth_bias=0.6)
        text = render_doc(doc)
        try:
            p = DecFileParser.from_string(text)
            p.parse()
        except Exception:
            res.skipped += 1
            continue
        for m in p.list_decay_mother_names()[:3]:
            cd = p.build_decay_chains(m)
            one(cd, "parser", rng.choice(attr_choices))
    for i in range(n_docs):
        spec = gen.rand_tree_spec(rng, rng.choice([1, 2, 3, 4, 5]), max_mult=3)
        dc = build_chain(spec, rng, with_meta=False)
        one(dc.to_dict(), "class", rng.choice(attr_choices))
    # the same Python objects at several places of one dictionary (a hand-made chain re-using the list of modes of a particle that
    # occurs twice): the graph is determined by the content of the dictionary, not by the identity of its parts
    def share(cd, memo):
        (mother, modes), = cd.items()
        key = canon_json(modes)
        if key in memo:
            return {mother: memo[key]}
        new = [dict(m, fs=[it if isinstance(it, str) else share(it, memo) for it in m["fs"]]) for m in modes]
        memo[key] = new
        return {mother: new}

    pm = [{"bf": 0.98823, "fs": ["gamma", "gamma"], "model": "PHSP", "model_params": ""}, {"bf": 0.01174, "fs": ["e+", "e-", "gamma"], "model": "PI0_DALITZ", "model_params": ""}]
    one({"D0": [{"bf": 1.0, "fs": ["K-", "pi+", {"pi0": pm}, {"pi0": pm}], "model": "PHSP", "model_params": ""}]}, "shared-objects", {})
    for k in range(20 if tier == "quick" else 200):
        spec = gen.rand_tree_spec(rng, rng.choice([2, 3, 4]), max_mult=3)
        dc = build_chain(spec, rng, with_meta=False)
        cd = share(dc.to_dict(), {})
        one(cd, "shared-objects", {})
    # hand-made dictionaries in which a name recurs along one path (B0 -> anti-B0 -> B0 -> K+ pi-; Upsilon -> pi+ pi- Upsilon,
    # the lower one decaying to e+ e-): every decay line of the dictionary is drawn, whatever the particles are called
    mix = {"B0": [{"bf": 0.2, "fs": [{"anti-B0": [{"bf": 0.5, "fs": [{"B0": [{"bf": 1e-5, "fs": ["K+", "pi-"], "model": "PHSP", "model_params": ""}]}],
                                                  "model": "", "model_params": ""}]}], "model": "", "model_params": ""},
                  {"bf": 0.8, "fs": [{"B0": [{"bf": 1.0, "fs": ["K+", "pi-"], "model": "", "model_params": ""}]}, "gamma"], "model": "", "model_params": ""}]}
    one(mix, "name-recurs-on-a-path", {})
    for k in range(15 if tier == "quick" else 150):
        spec = gen.rand_tree_spec(rng, rng.choice([2, 3, 4, 5]), max_mult=2)
        cd = build_chain(spec, rng, with_meta=False).to_dict()

        def recur(cd, path=()):
            (mother, modes), = cd.items()
            nm = rng.choice(path) if path and rng.random() < 0.5 else mother
            return {nm: [dict(m, fs=[it if isinstance(it, str) else recur(it, path + (nm,)) for it in m["fs"]]) for m in modes]}

        one(recur(cd), "name-recurs-on-a-path", {})
    # branching fractions given as text (a range, an upper limit, an empty text, something that merely looks like a number): the
    # edge carries that text, and Graphviz accepts the output
    for bf_text in ["0.0389-0.0395", "", "1.2.3", "-", ".", "1e-05", "<0.01", "~1e-3", "0.5", "1-", "seen", "3.5 %", "12", "-.5", "2..", "--1"]:
        cd = {"D0": [{"bf": bf_text, "fs": ["K-", {"pi0": [{"bf": bf_text, "fs": ["gamma", "gamma"], "model": "", "model_params": ""}]}], "model": "", "model_params": ""},
                     {"bf": 0.5, "fs": ["K-", "pi+"], "model": "", "model_params": ""}]}
        dot_budget[0] += 1
        one(cd, "bf-as-text", {})
    # wide and deep chains: every line with two or three decaying daughters, seven levels (127 and more decay lines in one graph)
    def bushy(name, depth, width):
        if depth == 0:
            return name
        return {name: [{"bf": 0.5, "fs": [bushy(f"{name}{k}", depth - 1, width) for k in range(width)] + ["x"], "model": "", "model_params": ""}]}

    for depth, width in ((7, 2), (5, 3)) if tier == "quick" else ((7, 2), (5, 3), (8, 2), (4, 4)):
        one(bushy("P", depth, width), "bushy", {})
    # fixed finding F17: names with HTML markup characters (only possible in hand-made chain dictionaries; always piped
    # through dot), alone, among table names, as mother, in nested lines, and as pure entity look-alikes
    special = ["a<b", "x&y", "p>q", "&amp;", "<SUB>", "a&b;c", "<<>>", "K&lt;", "&", "<", "q\"r", "it's", "&#773;",
               # names with blanks in them, padded names, a name that is one blank: one daughter each, one cell each (the empty text is no name)
               "pi+ slow", " K-", "K- ", "a  b", " ", "mu+\tmu-"]
    for k in range(12 if tier == "quick" else 120):
        spec = gen.rand_tree_spec(rng, rng.choice([1, 2, 3]), max_mult=2)
        dc = build_chain(spec, rng, with_meta=False)
        cd = dc.to_dict()

        def rename(cd, depth=0):
            (mother, modes), = cd.items()
            nm = rng.choice(special) if rng.random() < (0.3 if depth else 0.15) else mother
            return {nm: [dict(m, fs=[(rng.choice(special) if rng.random() < 0.35 else it) if isinstance(it, str) else rename(it, depth + 1)
                                     for it in m["fs"]]) for m in modes]}

        dot_budget[0] += 1
        one(rename(cd), "special-names", {})
    for nm in special:
        dot_budget[0] += 1
        one({"A": [{"bf": 1.0, "fs": [nm, "c"], "model": "", "model_params": ""}]}, "special-name", {})
    # the oracle of the label theorem: every HTML spelling of the particle table is accepted by Graphviz
    from particle.converters.bimap import DirectionalMaps as _DM

    html_name("pi0")
    all_names = sorted(str(k) for k in _html["maps"][0]._to_map) if hasattr(_html["maps"][0], "_to_map") else []
    if all_names:
        for lo in range(0, len(all_names), 300):
            chunk = all_names[lo:lo + 300]
            v = DecayChainViewer({"A": [{"bf": 1.0, "fs": chunk, "model": "", "model_params": ""}]})
            pr = subprocess.run(["dot", "-Tplain"], input=v.to_string().encode(), capture_output=True)
            res.count("table_spellings_through_dot", len(chunk))
            if pr.returncode != 0:
                res.violation("an HTML spelling of the particle table is not accepted by Graphviz", {"kind": "table", "names": chunk[:5]},
                              impl=pr.stderr.decode()[:300], clause="graphviz")
    # fixed finding F16: a decay line without daughters (always piped through dot)
    dot_budget[0] += 3
    one({"A": [{"bf": 0.5, "fs": [], "model": "PHSP", "model_params": ""}, {"bf": 0.5, "fs": ["b", {"C": [{"bf": 1.0, "fs": [], "model": "", "model_params": ""}]}], "model": "", "model_params": ""}]}, "regression F16", {})
    # an empty table adds nothing
    one({"A": []}, "empty", {})
    one({"A": [{"bf": 1.0, "fs": ["b", {"C": []}], "model": "", "model_params": ""}]}, "empty-sub", {})
    batch.run()
    return res.done()
