"""Shared pieces for the AmpGen -> GooFit properties (C17-C20)."""
from __future__ import annotations

import functools
import os
import random

from .common import REPO, canon_json

_STATE = {"cached": False}


def install_cache():
    """particle_from_string_name scans the 6500-row particle table per call; it is a pure function of the name and the
    loaded table, so the harness memoises it per process (the special-particle table is loaded first)."""
    if _STATE["cached"]:
        return
    from particle import Particle

    from decaylanguage.modeling import amplitudechain as ac
    from decaylanguage.utils import particleutils as pu

    getall = "all" if hasattr(Particle, "all") else "table"
    if 998100 not in getattr(Particle, getall)():
        Particle.load_table(os.path.join(os.path.dirname(ac.__file__), "..", "data", "MintDalitzSpecialParticles.csv"), append=True)
    _STATE["orig"] = pu.particle_from_string_name
    cached = functools.lru_cache(maxsize=None)(pu.particle_from_string_name)
    ac.particle_from_string_name = cached
    _STATE["cached_fn"] = cached
    _STATE["cached"] = True


def uninstall_cache():
    if _STATE["cached"]:
        from decaylanguage.modeling import amplitudechain as ac

        ac.particle_from_string_name = _STATE["orig"]
        _STATE["cached"] = False


def lookup(name):
    """oracle: the real particle_from_string_name; returns None when the name is not found"""
    install_cache()
    try:
        return _STATE["cached_fn"](name)
    except Exception:
        return None


def pkey(p) -> str:
    return str(int(p.pdgid))


# ----------------------------------------------------------------------------- raw parse (no transformer)
_RAW = {}


def raw_amp_parse(text: str):
    from lark import Lark

    if "lark" not in _RAW:
        g = open(os.path.join(REPO, "src/decaylanguage/data/ampgen.lark"), encoding="utf-8").read()
        _RAW["lark"] = Lark(g, parser="lalr")
    return _RAW["lark"].parse(text)


def conv_decay(t):
    """decay tree -> ["D", name, spin|None, lineshape|None, [sub...]]"""
    name = str(t.children[0].children[0])
    spin = ls = None
    subs = []
    for c in t.children[1:]:
        if c.data == "decaytype":
            for x in c.children:
                if x.data == "spinfactor":
                    spin = str(x.children[0])
                elif x.data == "lineshape":
                    ls = str(x.children[0])
        elif c.data == "subdecay":
            subs = [conv_decay(d) for d in c.children]
    return ["D", name, spin, ls, subs]


def conv_amp_tree(tree):
    out = []
    for t in tree.children:
        d = t.data
        if d == "options":
            o = t.children[0]
            if o.data == "fast_coherent_sum":
                out.append(["fcs", str(o.children[0])])
            elif o.data == "output":
                out.append(["output", str(o.children[0])])
            elif o.data == "nevents":
                out.append(["nevents", str(o.children[0])])
        elif d == "event_type":
            out.append(["event_type", [str(p.children[0]) for p in t.children]])
        elif d == "constant":
            out.append(["constant", str(t.children[0].children[0]), str(t.children[1])])
        elif d == "variable":
            out.append(["variable", str(t.children[0].children[0]), str(t.children[1].children[0]), str(t.children[2]), str(t.children[3])])
        elif d == "cplx_decay_line":
            a, b = t.children[1], t.children[2]
            out.append(["line", conv_decay(t.children[0]), str(a.children[0].children[0]), str(a.children[1]), str(a.children[2]),
                        str(b.children[0].children[0]), str(b.children[1]), str(b.children[2])])
        elif d == "cart_decay_line":
            out.append(["cart_line"])
        elif d == "invert_line":
            out.append(["invert_line"])
        else:
            raise RuntimeError(d)
    return out


def render_decay(d) -> str:
    _, name, spin, ls, subs = d
    s = name
    if spin and ls:
        s += f"[{spin};{ls}]"
    elif spin:
        s += f"[{spin}]"
    elif ls:
        s += f"[{ls}]"
    if subs:
        s += "{" + ",".join(render_decay(x) for x in subs) + "}"
    return s


def render_amp(doc, rng=None) -> str:
    lines = []
    for st in doc:
        k = st[0]
        if k == "event_type":
            lines.append("EventType " + " ".join(st[1]))
        elif k == "constant":
            lines.append(f"{st[1]} {st[2]}")
        elif k == "variable":
            lines.append(f"{st[1]}   {st[2]}   {st[3]}   {st[4]}")
        elif k == "line":
            lines.append(f"{render_decay(st[1])}   {st[2]} {st[3]} {st[4]}   {st[5]} {st[6]} {st[7]}")
        elif k == "fcs":
            lines.append(f"FastCoherentSum::UseCartesian {st[1]}")
        elif k == "output":
            lines.append(f"Output {st[1]}")
        elif k == "nevents":
            lines.append(f"nEvents {st[1]}")
        if rng is not None and rng.random() < 0.2:
            lines.append(rng.choice(["", "# a comment", "   ", "#D0{K-,pi+} 0 1 0 0 1 0"]))
    return "\n".join(lines) + "\n"


def decay_names(d, acc=None):
    acc = [] if acc is None else acc
    acc.append(d[1])
    for s in d[4]:
        decay_names(s, acc)
    return acc


def doc_names(doc):
    names = []
    for st in doc:
        if st[0] == "event_type":
            names += st[1]
        elif st[0] == "line":
            decay_names(st[1], names)
    return list(dict.fromkeys(names))


def lookup_table(doc):
    """[(name, key)] for every particle name of the document that the real look-up resolves"""
    out = []
    for n in doc_names(doc):
        p = lookup(n)
        if p is not None:
            out.append([n, pkey(p)])
    return out


# ----------------------------------------------------------------------------- wire forms for the driver
def decay_wire(d):
    return ["D", d[1], d[2], d[3], [decay_wire(x) for x in d[4]]]


def amp_doc_wire(doc):
    out = []
    for st in doc:
        k = st[0]
        if k == "line":
            out.append(["line", decay_wire(st[1])] + list(st[2:]))
        elif k == "event_type":
            out.append(["event_type", list(st[1])])
        else:
            out.append(list(st))
    return out


def chain_canon_py(line):
    """an AmplitudeChain -> [written name, particle key, spin, lineshape, daughters]"""
    return [line.name, pkey(line.particle), line.spinfactor, line.lineshape, [chain_canon_py(d) for d in line.daughters]]


def chain_canon_wire(w):
    """decoded model chain: (name key spin ls coupling (ds...))"""
    return [w[0], w[1], None if w[2] == "N" else w[2][0], None if w[3] == "N" else w[3][0], [chain_canon_wire(d) for d in w[5]]]


# ----------------------------------------------------------------------------- generator
RES_V = ["K*(892)bar0", "rho(770)0", "rho(1450)0", "omega(782)0", "K*(892)0", "phi(1020)0"]       # vectors -> two pseudoscalars
RES_A = ["K(1)(1270)bar-", "a(1)(1260)+", "K(1)(1400)bar-", "K(1)(1270)+"]                          # axials -> V P / S P
RES_S = ["KPi00", "PiPi00", "KPi10", "PiPi10", "PiPi20"]                                            # scalars (special particles)
RES_T = ["K(2)*(1430)bar-"]
RES_P = ["K(1460)bar-"]
FINAL = ["K-", "pi+", "pi-", "K+"]

PAIRS = {
    "K*(892)bar0": ("K-", "pi+"), "K*(892)0": ("K+", "pi-"), "rho(770)0": ("pi+", "pi-"), "rho(1450)0": ("pi+", "pi-"),
    "omega(782)0": ("pi+", "pi-"), "phi(1020)0": ("K+", "K-"), "KPi00": ("K-", "pi+"), "KPi10": ("K-", "pi+"),
    "PiPi00": ("pi+", "pi-"), "PiPi10": ("pi+", "pi-"), "PiPi20": ("pi+", "pi-"),
}
CASCADE = {   # three-body resonance -> list of (two-body resonance, bachelor)
    "K(1)(1270)bar-": [("K*(892)bar0", "pi-"), ("rho(770)0", "K-"), ("omega(782)0", "K-"), ("KPi00", "pi-")],
    "K(1)(1400)bar-": [("K*(892)bar0", "pi-")],
    "a(1)(1260)+": [("rho(770)0", "pi+"), ("PiPi20", "pi+")],
    "K(2)*(1430)bar-": [("K*(892)bar0", "pi-")],
    "K(1460)bar-": [("K*(892)bar0", "pi-"), ("PiPi10", "K-")],
}
BACHELOR = {"K(1)(1270)bar-": "pi+", "K(1)(1400)bar-": "pi+", "a(1)(1260)+": "K-", "K(2)*(1430)bar-": "pi+", "K(1460)bar-": "pi+"}
LS_TAGS = {"KPi00": ["FOCUS.Kpi", "FOCUS.I32", "FOCUS.KEta"], "KPi10": ["FOCUS.Kpi", "FOCUS.I32"],
           "PiPi00": ["kMatrix.pole.1", "kMatrix.prod.0"], "PiPi10": ["kMatrix.pole.1", "kMatrix.prod.0"], "PiPi20": ["kMatrix.pole.0", "kMatrix.prod.0"]}

NUMS = ["1", "0", "0.5", "1.25", "-0.271637", "2.01551", "0.0205762", "3.01374", "-2.96395", "1e-3", "2E-1", ".5", "+0.75"]
BIG_NUMS = ["1433.0", "2400", "-1940.8", "1e4", "12345.678"]


def two_body(rng, name, tag=True):
    a, b = PAIRS[name]
    ls = rng.choice(LS_TAGS[name]) if (tag and name in LS_TAGS) else None
    if tag and ls is None and name in RES_V and rng.random() < 0.12:
        ls = "GSpline.EFF"      # a spline line shape on a neutral two-body resonance (its name ends in 0)
    return ["D", name, None, ls, [["D", a, None, None, []], ["D", b, None, None, []]]]


def coupling(rng):
    f1, f2 = rng.choice([(2, 2), (0, 0), (0, 0), (2, 0), (0, 2), (1, 1), (-1, -1), (3, 0), (2, -2), (-1, 2)])
    # now and then a coupling far from order one (a magnitude, or real and imaginary parts, in the thousands)
    v1 = rng.choice(BIG_NUMS) if rng.random() < 0.06 else rng.choice(NUMS)
    return [str(f1), v1, rng.choice(NUMS[:6]), str(f2), rng.choice(NUMS), rng.choice(NUMS[:6])]


def gen_amp_doc(rng: random.Random, n_lines=None, partial=True, cartesian=None, params=True, min_alts=0):
    """a D0 -> K- pi+ pi+ pi- option document: full and partial lines (nested to depth 3), 0..3 alternatives per resonance"""
    ev = ["D0", "K-", "pi+", "pi+", "pi-"]
    if rng.random() < 0.3:
        ev = ["D0"] + rng.sample(["K-", "pi+", "pi+", "pi-"], 4)
    doc = [["event_type", ev]]
    c = cartesian if cartesian is not None else rng.choice([None, None, 0, 1])
    if c is not None:
        doc.append(["fcs", str(c)])
    n_lines = n_lines or rng.randint(1, 6)
    sublines = {}
    for _ in range(n_lines):
        kind = rng.choice(["VV", "VV", "VS", "SS", "cascade", "cascade", "cascade-partial" if partial else "cascade"])
        if kind in ("VV", "VS", "SS"):
            v1 = rng.choice(["K*(892)bar0", "KPi00", "KPi10"] if kind != "VV" else ["K*(892)bar0"])
            v2 = rng.choice(["rho(770)0", "rho(1450)0", "omega(782)0"] if kind == "VV" else ["PiPi00", "PiPi10", "PiPi20"] if kind == "SS" else ["PiPi00", "rho(770)0"])
            if kind == "VS":
                v1 = rng.choice(["K*(892)bar0", "KPi00"])
            spin = rng.choice([None, None, "S", "P", "D"]) if kind == "VV" else None
            part1 = partial and v1 in LS_TAGS and rng.random() < 0.4
            part2 = partial and v2 in LS_TAGS and rng.random() < 0.4
            d1 = ["D", v1, None, None, []] if part1 else two_body(rng, v1)
            d2 = ["D", v2, None, None, []] if part2 else two_body(rng, v2)
            for nm, p in ((v1, part1), (v2, part2)):
                if p:
                    sublines.setdefault(nm, rng.randint(min_alts, 3))
            ds = [d1, d2] if rng.random() < 0.7 else [d2, d1]
            doc.append(["line", ["D", "D0", spin, None, ds]] + coupling(rng))
        else:
            r3 = rng.choice(list(CASCADE))
            if kind == "cascade-partial":
                doc.append(["line", ["D", "D0", None, None, [["D", r3, None, None, []], ["D", BACHELOR[r3], None, None, []]]]] + coupling(rng))
                if rng.random() < 0.3:
                    # the same partial daughter under a second top line (another spin tag): it is expanded twice in one read
                    doc.append(["line", ["D", "D0", rng.choice([None, "S", "D"]), None, [["D", r3, None, None, []], ["D", BACHELOR[r3], None, None, []]]]] + coupling(rng))
                sublines.setdefault(r3, rng.randint(min_alts, 3))
            else:
                r2, b = rng.choice(CASCADE[r3])
                wave = rng.choice([None, None, "D"]) if r3 in ("K(1)(1270)bar-", "a(1)(1260)+") else None
                ls3 = "GSpline.EFF" if (r3 in ("K(1)(1270)bar-", "a(1)(1260)+", "K(1460)bar-") and rng.random() < 0.4) else None
                inner = ["D", r3, wave, ls3, [two_body(rng, r2), ["D", b, None, None, []]]]
                doc.append(["line", ["D", "D0", None, None, [inner, ["D", BACHELOR[r3], None, None, []]]]] + coupling(rng))
    # separately written lines for the partial daughters
    deeper = {}
    for nm, k in sublines.items():
        for _ in range(k):
            if nm in PAIRS:
                doc.append(["line", two_body(rng, nm)] + coupling(rng))
            else:
                r2, b = rng.choice(CASCADE[nm])
                part = partial and min_alts == 0 and r2 in LS_TAGS and rng.random() < 0.3
                d2 = ["D", r2, None, None, []] if part else two_body(rng, r2)
                if part and r2 not in sublines:
                    # the partial line's own daughter is written separately too (substitution chained to depth 3)
                    deeper.setdefault(r2, rng.randint(min_alts, 3))
                wave = rng.choice([None, "D"]) if (nm in ("K(1)(1270)bar-", "a(1)(1260)+") and r2 in RES_V) else None
                ls3 = rng.choice([None, "GSpline.EFF"])
                doc.append(["line", ["D", nm, wave, ls3, [d2, ["D", b, None, None, []]]]] + coupling(rng))
    for nm, k in deeper.items():
        for _ in range(k):
            doc.append(["line", two_body(rng, nm)] + coupling(rng))
    if params:
        for _ in range(rng.randint(0, 4)):
            doc.append(["variable", rng.choice(["D0_radius", "IS_p1_4pi", "sA", "s0_prod", "f_scatt1", "K(1)(1270)bar-_mass", "x::y"]),
                        rng.choice(["0", "2", "1", "-1", "3", "-2"]), rng.choice(NUMS), rng.choice(NUMS[:6])])
        for _ in range(rng.randint(0, 3)):
            doc.append(["constant", rng.choice(["a(1)(1260)+::Spline::Min", "K(1460)bar-::Spline::N", "Foo::Bar", "xx"]), rng.choice(NUMS)])
    head, rest = doc[:1], doc[1:]
    if rng.random() < 0.5:
        rng.shuffle(rest)
    if rng.random() < 0.2:
        return rest[: len(rest) // 2] + head + rest[len(rest) // 2:], ev
    return head + rest, ev


def gen_emit_doc(rng, families=True, unsupported=False):
    """amplitudes over the supported spin structures, both topologies, four lineshape kinds, identical resonances"""
    ev = ["D0"] + (["K-", "pi+", "pi+", "pi-"] if rng.random() < 0.5 else rng.choice([["pi+", "pi-", "pi+", "pi-"], ["pi+", "pi+", "pi-", "pi-"], ["pi-", "K-", "pi+", "pi+"], ["K+", "K-", "pi+", "pi-"]]))
    kpi = "K-" in ev and "K+" not in ev
    doc = [["event_type", ev]]
    lines = []
    for _ in range(rng.randint(1, 4)):
        kind = rng.choice(["VV", "VV-same", "VS", "SS", "AVP", "ASP", "TVP", "PVP", "PSP"])
        if kpi:
            V1, S1 = "K*(892)bar0", "KPi00"
            casc = {"AVP": ("K(1)(1270)bar-", "K*(892)bar0", "pi-", "pi+"), "ASP": ("K(1)(1270)bar-", "KPi00", "pi-", "pi+"),
                    "TVP": ("K(2)*(1430)bar-", "K*(892)bar0", "pi-", "pi+"), "PVP": ("K(1460)bar-", "K*(892)bar0", "pi-", "pi+"),
                    "PSP": ("K(1460)bar-", "PiPi10", "K-", "pi+")}
            if kind == "VV-same":
                kind = "VV"
        else:
            V1, S1 = "rho(770)0", "PiPi00"
            casc = {"AVP": ("a(1)(1260)+", "rho(770)0", "pi+", "pi-"), "ASP": ("a(1)(1260)+", "PiPi20", "pi+", "pi-")}
            if kind in ("TVP", "PVP", "PSP"):
                kind = "AVP"
            if "K+" in ev:
                kind = rng.choice(["VV", "VS"])
        if kind in ("VV", "VV-same", "VS", "SS"):
            if "K+" in ev:
                a, b = "phi(1020)0", rng.choice(["rho(770)0", "PiPi00"] if kind != "VV" else ["rho(770)0", "omega(782)0"])
            else:
                a = V1 if kind in ("VV", "VV-same", "VS") else S1
                if kind == "VV-same":
                    b = a if not kpi else "rho(770)0"
                else:
                    b = rng.choice(["rho(770)0", "rho(1450)0", "omega(782)0"]) if kind == "VV" else rng.choice(["PiPi00", "PiPi10"])
            spin = rng.choice([None, "S", "P", "D"]) if kind.startswith("VV") else None
            ds = [two_body(rng, a), two_body(rng, b)]
            if rng.random() < 0.3 and kind != "VS":     # (scalar, vector) in this order is not a supported spin structure
                ds.reverse()
            lines.append(["line", ["D", "D0", spin, None, ds]] + coupling(rng))
        else:
            r3, r2, b3, b4 = casc[kind]
            wave = rng.choice([None, "D"]) if kind == "AVP" else None
            ls3 = rng.choice([None, "GSpline.EFF"]) if r3 in ("K(1)(1270)bar-", "a(1)(1260)+", "K(1460)bar-") else None
            inner = ["D", r3, wave, ls3, [two_body(rng, r2), ["D", b3, None, None, []]]]
            if unsupported and rng.random() < 0.12:
                # the bachelor written before the sub-resonance: not one of the supported spin structures (both back ends refuse it)
                inner[4].reverse()
            # the orbital momentum of the top decay written out (it decides the form factor, not the name of the spin structure)
            top = rng.choice([None, None, None, "P", "D", "S"])
            lines.append(["line", ["D", "D0", top, None, [inner, ["D", b4, None, None, []]]]] + coupling(rng))
    doc += lines
    if families:
        doc += required_families(doc, rng)
    return doc, ev


# option texts outside the D0 -> K- pi+ pi+ pi- family: final states with spin (leptons, a photon), B mesons, an open anti-charm
# resonance with a spline line shape, charmonium
OTHER_FAMILIES = [
    """EventType B0 mu+ mu- K+ pi-
B0{J/psi(1S){mu+,mu-},K*(892)0{K+,pi-}}                    2 1         0          2 0         0
B0[P]{J/psi(1S){mu+,mu-},K*(892)0{K+,pi-}}                 0 0.5       0.01       0 1.0       0.01
B0[D]{K*(892)0{K+,pi-},J/psi(1S){mu+,mu-}}                 0 0.3       0.01       0 -1.0      0.01
""",
    """EventType B+ mu+ mu- gamma K+
B+{chi(c1)(1P){J/psi(1S){mu+,mu-},gamma},K+}               2 1         0          2 0         0
B+{chi(c2)(1P){J/psi(1S){mu+,mu-},gamma},K+}               0 0.2       0.01       0 0.4       0.01
""",
    # three and four identical particles in the event type (3! and 4! assignments per amplitude)
    """EventType D+ pi+ pi0 pi0 pi0
D+{rho(770)+{pi+,pi0},f(0)(980)0{pi0,pi0}}                 2 1         0          2 0         0
D+{a(1)(1260)+{rho(770)+{pi+,pi0},pi0},pi0}                0 0.5       0.1        0 0.3       0.1
""",
    """EventType D0 pi0 pi0 pi0 pi0
D0{f(0)(980)0{pi0,pi0},f(0)(980)0{pi0,pi0}}                2 1         0          2 0         0
D0{f(0)(1370)0{pi0,pi0},f(0)(980)0{pi0,pi0}}               0 0.5       0.1        0 0.3       0.1
""",
    """EventType B0 Dbar0 pi0 pi- pi+
D(2)*(2460)-::Spline::Min 4.1
D(2)*(2460)-::Spline::Max 9.5
D(2)*(2460)-::Spline::N   4
B0{D(2)*(2460)-[GSpline.EFF]{D*(2007)bar0{Dbar0,pi0},pi-},pi+}   0 0.8 0.01 0 0.3 0.02
D(2)*(2460)-::Spline::Gamma::0   2 0.011 0
D(2)*(2460)-::Spline::Gamma::1   2 0.024 0
D(2)*(2460)-::Spline::Gamma::2   2 0.031 0
D(2)*(2460)-::Spline::Gamma::3   2 0.047 0
""",
    """EventType Bbar0 D0 pi0 pi+ pi-
D(2)*(2460)+::Spline::Min 4.1
D(2)*(2460)+::Spline::Max 9.5
D(2)*(2460)+::Spline::N   3
Bbar0{D(2)*(2460)+[GSpline.EFF]{D*(2007)0{D0,pi0},pi+},pi-}   2 0.8 0.01 2 0.3 0.02
D(2)*(2460)+::Spline::Gamma::0   2 0.011 0
D(2)*(2460)+::Spline::Gamma::1   0 0.024 0.1
D(2)*(2460)+::Spline::Gamma::2   2 0.031 0
""",
]


def other_family_docs():
    out = []
    for text in OTHER_FAMILIES:
        doc = conv_amp_tree(raw_amp_parse(text))
        ev = next(st[1] for st in doc if st[0] == "event_type")
        out.append((doc, ev))
    return out


def required_families(doc, rng):
    """the parameter and constant lines the lineshapes of the document need (the premise of C19)"""
    out = []
    tags = set()
    spl = set()

    def walk(d):
        if d[3]:
            tags.add(d[3])
            if d[3] == "GSpline.EFF":
                spl.add(d[1])
        for x in d[4]:
            walk(x)

    for st in doc:
        if st[0] == "line":
            walk(st[1])
    for nm in sorted(spl):
        nk = rng.choice([3, 3, 4, 6])
        # the number of bins and the number of knot parameters written need not agree (a file whose N was lowered keeps its
        # old knots): every knot parameter written is listed, in both languages
        out += [["constant", f"{nm}::Spline::Min", rng.choice(["0.6", "0.25", "0.18412"])], ["constant", f"{nm}::Spline::Max", rng.choice(["3", "2.5", "1.9"])],
                ["constant", f"{nm}::Spline::N", str(nk + rng.choice([1, 1, 0, -1, -2]))]]
        out += [["variable", f"{nm}::Spline::Gamma::{k}", rng.choice(["2", "0"]), rng.choice(["1.0", "0.5", "0.00331"]), rng.choice(["0", "0.1"])] for k in range(nk)]
    if any(t.startswith("kMatrix") for t in tags):
        for n in ("sA0", "sA", "s0_prod", "s0_scatt"):      # programmatic_name("sA0") is the symbol sA_0 the lineshape uses
            out.append(["variable", n, "2", rng.choice(["-0.15", "1", "-0.07"]), "0"])
        out += [["variable", f"f_scatt{k}", "2", "0.1", "0"] for k in range(3)]
        for i_ in (1, 2):
            for nm in ("pipi", "KK", "4pi", "EtaEta", "EtapEta", "mass"):
                out.append(["variable", f"IS_p{i_}_{nm}", "2", rng.choice(["0.22889", "-0.55377", "0"]), "0"])
    return out


