"""C01: decay tables read from a .dec file are exactly what the file states."""
from __future__ import annotations

import glob
import os

from . import gen
from .common import REPO, Batch, Result, canon_json, conv_tree, err_class, fl, load_corpus, raw_parse, render_doc, rng_for, parse_with
from .decsnap import impl_tables, impl_tables_public, model_tables


def spec_tables(doc):
    """what the file states, read off the statements directly (Decay blocks only; no alias/Define in use):
    one table per distinct mother in file order, first block kept"""
    out = []
    seen = set()
    for st in doc:
        if st[0] == "decay" and st[1] not in seen:
            seen.add(st[1])
            out.append(st)
    return out


def classify(impl, model):
    im = [m for m, _ in impl]
    mm = [m for m, _ in model]
    if im != mm:
        return "mothers: one table per distinct mother, in file order, first block kept"
    for (m, a), (_, b) in zip(impl, model):
        if len(a) != len(b):
            return "every decay line once"
        for x, y in zip(a, b):
            for idx, name in enumerate(["branching fraction", "daughters verbatim and in order", "PHOTOS flag", "model name", "model parameters"]):
                if x[idx] != y[idx]:
                    return name
    return "other"


def run(ctx):
    from decaylanguage import DecFileParser

    tier, seed = ctx["tier"], ctx["seed"]
    rng = rng_for(seed, "c01")
    res = Result("generated documents over the whole statement language (0..8 blocks, repeated/empty/identical blocks, daughters "
                 "over the label alphabet, every published model, every literal form, Define'd and word parameters) and every "
                 ".dec file under tests/data; non-trivial = distinct text with >= 2 blocks and a parameterised line")
    batch = Batch(ctx["driver_ok"])
    n_docs = 300 if tier == "quick" else 3000
    used_models = set()
    used_chars = set()

    import tempfile
    tmpdir = tempfile.mkdtemp(prefix="verif_c01_")
    counter = [0]

    def file_based(text, case, impl, extra=(), doc=None):
        """the same text given as a file (with and without a final line end; with lone `End` lines between its statements, as
        when files each closed by End are joined with cat) must give the same tables"""
        counter[0] += 1
        variants = [(False, text), (True, text.rstrip("\r\n\t "))]
        if doc is not None and len(doc) >= 2:
            cuts = set(rng.sample(range(1, len(doc)), min(len(doc) - 1, rng.choice([1, 1, 2]))))
            parts = []
            for k, st in enumerate(doc):
                if k in cuts:
                    parts.append(rng.choice(["End", "End", "  End", "End # of the common part", "End\t"]))
                parts.append(render_doc([st]).rstrip("\n"))
            variants.append(("End", "\n".join(parts) + rng.choice(["\n", "\nEnd\n", ""])))
        for strip, body in variants:
            path = os.path.join(tmpdir, f"f{counter[0]}_{strip}.dec")
            with open(path, "w", encoding="utf-8", newline="") as f:
                f.write(body)
            try:
                q = DecFileParser(path)
                if extra:
                    q.load_additional_decay_models(*extra)
                parse_with(q, case["include_ccdecays"])
                got = impl_tables(q)
            except Exception as e:
                got = "error: " + err_class(e)
            if got != impl:
                res.violation("the text read from a file gives different tables than the same text given as a string",
                              dict(case, final_newline=not strip, file_text=body if strip == "End" else None), impl=got if isinstance(got, str) else got[:3], model=impl[:3], clause="file-based construction")
                return

    def one(text, label, doc=None, cc=True, extra=()):
        case = {"kind": "tables", "label": label, "text": text if len(text) < 4000 else text[:300] + "...", "include_ccdecays": cc}
        try:
            wire = conv_tree(raw_parse(text, extra))
        except Exception as e:
            if doc is not None:
                res.violation(f"a well-formed text is rejected by the grammar: {type(e).__name__}", case, clause="well-formed text")
            res.case()
            return
        if doc is not None and wire != doc:
            res.violation("the parse tree does not state what was written", case, impl=wire[:3], model=doc[:3], clause="reading of the text")
        try:
            p = DecFileParser.from_string(text)
            if extra:
                p.load_additional_decay_models(*extra)
                case["registered"] = list(extra)
            case["call"] = parse_with(p, cc)
            impl = impl_tables(p)
            pub = impl_tables_public(p)
            n = p.number_of_decays
            err = None
        except Exception as e:
            impl, err = None, err_class(e)
        nblocks = sum(1 for s in wire if s[0] == "decay")
        haspar = any(l[3][0] == "named" and l[3][2] for s in wire if s[0] == "decay" for l in s[2])
        nt = canon_json(text) if nblocks >= 2 and haspar else None
        res.case(nt, {"text": text[:400], "mothers": [m for m, _ in impl] if impl else err} if nt and len(res.samples) < 3 else None)
        res.count("docs")
        res.count(f"blocks_{min(nblocks, 8)}")
        for s in wire:
            if s[0] == "decay":
                for l in s[2]:
                    if l[3][0] == "named":
                        used_models.add(l[3][1])
                    for d in l[1]:
                        used_chars.update(d)
        if impl is not None and len(text) < 6000 and res.evaluations % 3 == 0:
            def again(text=text, cc=cc, extra=extra):
                q = DecFileParser.from_string(text)
                if extra:
                    q.load_additional_decay_models(*extra)
                parse_with(q, cc)
                return impl_tables(q)

            res.remember({"text": text, "include_ccdecays": cc}, again, impl)
        if impl is not None:
            if n != len(impl) or [m for m, _ in impl] != p.list_decay_mother_names():
                res.violation("number_of_decays / list_decay_mother_names disagree with the stored tables", case, clause="mothers")
            # the first table of each name through the public queries
            firsts = {}
            for m, ls in impl:
                firsts.setdefault(m, ls)
            if [[m, firsts[m]] for m, _ in impl] != pub:
                res.violation("public queries do not show the stored tables", case, clause="every decay line once")
            if [list(x[1] for x in ls) for m, ls in pub] != [[list(fs) for fs in p.list_decay_modes(m)] for m, _ in pub]:
                res.violation("list_decay_modes differs from the decay mode details", case, clause="daughters verbatim and in order")
            if doc is not None and res.evaluations % 4 == 0:
                file_based(text, case, impl, extra, doc)

        def on(ans, case=case, impl=impl, err=err):
            if ans is None:
                return
            if ans[0] == "err":
                want = {"UndefinedModel": "ValueError", "AliasOfAlias": "Other:AttributeError"}.get(ans[1], ans[1])
                if err is None:
                    res.violation(f"the model refuses the text ({ans[1]}), the code accepts it", case, impl=impl[:2] if impl else None, model=ans, clause="model tie")
                elif err != want and ans[1] != "AliasOfAlias":
                    res.violation(f"different refusal: code {err}, model {ans[1]}", case, impl=err, model=ans, clause="model tie")
                return
            if err is not None:
                res.violation(f"parse() raised {err}", case, impl=err, model="tables", clause="well-formed text")
                return
            model = model_tables(ans[1])
            if model != impl:
                res.violation("decay tables are not what the file states", case, impl=impl[:4], model=model[:4], clause=classify(impl, model))

        batch.add(["tables", [cc], wire], on)

    for fname, c in load_corpus("C01"):
        one(c["text"], "corpus:" + fname, cc=c.get("include_ccdecays", True))

    for i in range(n_docs):
        doc, info = gen.gen_doc(rng, cc=rng.random() < 0.4, copies=rng.random() < 0.3)
        cc = rng.random() < 0.8
        one(render_doc(doc), "generated", doc=doc, cc=cc)
        if i % 4 == 1 and doc:
            # comments holding characters some line-splitting routines cut at (form feed, vertical tab, file/group/record
            # separators, NEL, LINE / PARAGRAPH SEPARATOR) followed by text that would be live input: for the grammar a comment
            # ends at the line feed only, so the statements are those of the plain text
            odd = ["\x0c", "\x0b", "\x1c", "\x1d", "\x1e", "\x85", "\u2028", "\u2029"]
            out = []
            inside = False
            for ln in render_doc(doc).split("\n"):
                out.append(ln)
                if ln.startswith("Decay "):
                    inside = True
                elif ln.startswith("Enddecay"):
                    inside = False
                if ln and rng.random() < 0.4:
                    tail = "0.5 K+ K- PHSP;" if inside else rng.choice(["Alias odd1 odd2", "CDecay odd3", "noPhotos", "Define oddx 1.0"])
                    out.append(("  " if inside else "") + "# note" + rng.choice(odd) + tail)
            one("\n".join(out), "odd-comment-characters", doc=doc, cc=cc)
            res.count("odd_comment_texts")
        if i % 3 == 0 and doc:
            # a file sharing most of its text with the previous one, then the previous one again: every parse must be
            # answered from its own text (nothing remembered under a key that ignores an edited value)
            d2 = gen.sibling_doc(rng, doc)
            one(render_doc(d2), "generated:sibling", doc=d2, cc=cc)
            one(render_doc(doc), "generated:again", doc=doc, cc=cc)
            res.count("siblings")
    # model names registered by the user (in this order), some extending a published or an earlier registered name with a
    # character that is no word character: the name written is the name reported, and its parameters are its own
    extra = ["MYGEN", "MYGEN-V2", "PHSP-NR", "HELAMP-LHCB", "MYGEN-V2-b", "X_MODEL"]
    for k in range(4 if tier == "quick" else 40):
        lines = []
        for _ in range(rng.randint(2, 6)):
            name = rng.choice(extra + ["PHSP", "HELAMP"])
            lines.append([rng.choice(gen.BF_CHOICES), gen.safe_names(rng, 2), rng.random() < 0.3, ["named", name, gen.rand_params(rng) if rng.random() < 0.6 else None]])
        doc = [["decay", "B0sig", lines]]
        one(render_doc(doc), "registered-models", doc=doc, extra=tuple(extra))
    # every published model, with and without parameters and PHOTOS, in one sweep
    models = gen.known_models()
    chunk = []
    for i, m in enumerate(models):
        chunk.append([rng.choice(gen.BF_CHOICES), gen.safe_names(rng, 2), i % 2 == 0, ["named", m, gen.rand_params(rng) if i % 3 else None]])
        if len(chunk) == 9 or i == len(models) - 1:
            doc = [["decay", "B0", chunk]]
            one(render_doc(doc), "every-model", doc=doc)
            chunk = []
    # the label alphabet: every character in daughter position
    for ch in gen.SYNTH_CHARS:
        for name in ("a" + ch + "b", "X" + ch, ch + "q" if ch not in "0123456789.+-" else "z" + ch):
            if gen.safe_label(name):
                doc = [["decay", "M" + ch, [["1.0", ["pi+", name, name], False, ["named", "PHSP", None]]]]]
                one(render_doc(doc), "alphabet", doc=doc)
    # shipped files
    files = sorted(glob.glob(REPO + "/tests/data/*.dec")) + (sorted(glob.glob(REPO + "/tests/data/models/*.dec")) if tier == "thorough" else sorted(glob.glob(REPO + "/tests/data/models/*.dec"))[seed % 5::5])
    if tier == "thorough":
        files += [REPO + "/src/decaylanguage/data/DECAY_LHCB.DEC", REPO + "/src/decaylanguage/data/DECAY_BELLE2.DEC"]
    for f in files:
        try:
            text = open(f, encoding="utf-8").read() + "\n"
        except Exception:
            continue
        one(text, "file:" + os.path.basename(f))
    batch.run()
    import shutil
    shutil.rmtree(tmpdir, ignore_errors=True)
    res.distribution["published_models_used"] = len(used_models & set(models))
    res.distribution["label_characters_used"] = len(used_chars)
    return res.done()
