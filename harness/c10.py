"""C10: expanding decay modes enumerates every complete decay path exactly once."""
from __future__ import annotations

import itertools

from . import gen
from .common import REPO, Batch, Result, canon_json, conv_tree, load_corpus, raw_parse, render_doc, rng_for


def tables_of(p):
    return {m: [list(fs) for fs in p.list_decay_modes(m)] for m in p.list_decay_mother_names()}


def path_count(tables, m, memo=None):
    """sum over lines of the product over daughters of the daughters' own counts; a daughter without decay lines
    (no table, or an empty Decay block) is stable"""
    memo = {} if memo is None else memo
    if m in memo:
        if memo[m] is None:
            raise ValueError(f"the tables are cyclic at {m}")
        return memo[m]
    memo[m] = None      # being counted
    total = 0
    for fs in tables[m]:
        prod = 1
        for d in fs:
            if d in tables and tables[d]:
                prod *= path_count(tables, d, memo)
        total += prod
    memo[m] = total
    return total


FORMATS = [("{mother} --> {daughters}", "[{mother} --> {daughters}]"), ("{mother} => {daughters}", "{mother} (=> {daughters})"),
           ("{mother} -> {daughters}", "[{mother} -> {daughters}]"), ("{daughters} <- {mother}", "({daughters} <- {mother})")]
DEFAULT_FMT = ("{mother} -> {daughters}", "({mother} -> {daughters})")


def spec_expand(tables, aliases, m, top=True, fmt=DEFAULT_FMT):
    """all choices, each rendered with the patterns in force (default: the library's): independent enumeration"""
    name = aliases.get(m, m)
    out = []
    for fs in tables[m]:
        opts = []
        for d in fs:
            if d in tables and tables[d]:
                opts.append(spec_expand(tables, aliases, d, top=False, fmt=fmt))
            elif d in tables:
                opts.append([aliases.get(d, d)])   # empty Decay block: stable, shown under the aliased name
            else:
                opts.append([d])
        for combo in itertools.product(*opts):
            body = " ".join(sorted(combo))
            out.append((fmt[0] if top else fmt[1]).format(mother=name, daughters=body))
    return out


def run(ctx):
    from decaylanguage import DecFileParser

    tier, seed = ctx["tier"], ctx["seed"]
    rng = rng_for(seed, "c10")
    res = Result("generated acyclic table sets (0..4 lines, depth <= 5, repeated daughters, aliases, empty blocks) and shipped "
                 "mothers with path count below a bound; non-trivial = distinct (tables, mother) with >= 2 descriptors and a sub-decay")
    batch = Batch(ctx["driver_ok"])
    n_docs = 200 if tier == "quick" else 2500
    bound = 3000 if tier == "quick" else 50000
    hist = [0]

    def one(p, wire, text, m, label):
        case = {"kind": "expand", "label": label, "text": text if len(text) < 3000 else None, "mother": m}
        tabs = tables_of(p)
        try:
            n = path_count(tabs, m)
        except ValueError as e:
            # the generated and selected inputs are acyclic: tables with a cycle are not the tables the text states
            if label == "shipped":
                res.skipped += 1
                return
            res.violation(f"the decay tables reported for an acyclic text are cyclic ({e})", case, clause="each choice once")
            res.case()
            return
        if n > bound:
            res.skipped += 1
            return
        try:
            impl = p.expand_decay_modes(m)
        except Exception as e:
            res.violation(f"expand_decay_modes raised {type(e).__name__}: {e}", case, clause="expansion")
            res.case()
            return
        want = spec_expand(tabs, p.dict_aliases(), m)
        if hist[0] % 4 == 1 and n <= 300:
            res.remember({"text": text if len(text) < 3000 else None, "mother": m, "label": label}, lambda p=p, m=m: p.expand_decay_modes(m), impl)
        if len(impl) != n:
            res.violation("number of descriptors is not the number of decay paths", case, impl=len(impl), model=n, clause="count",
                          finding_key="F12" if len(impl) == 0 else None)
        elif impl != want:
            if sorted(impl) == sorted(want):
                res.violation("descriptors are not in file order of the choices", case, impl=impl[:6], model=want[:6], clause="order")
            else:
                res.violation("descriptors differ from the enumerated choices", case, impl=impl[:6], model=want[:6], clause="each choice once")
        nt = canon_json([text, m]) if n >= 2 and any("(" in d for d in want) else None
        res.case(nt, {"mother": m, "descriptors": impl[:4], "count": n} if nt else None)
        res.count("expansions")
        res.count("with_alias" if p.dict_aliases() else "no_alias")
        if n <= 200 and n >= 1 and hist[0] % 3 == 0:
            # a descriptor-format context entered and left: inside it the chosen patterns are used, afterwards the format in
            # force before it is back, for this and every later expansion
            from decaylanguage.utils import DescriptorFormat

            fmt = FORMATS[hist[0] // 3 % len(FORMATS)]
            try:
                with DescriptorFormat(*fmt):
                    inside = p.expand_decay_modes(m)
                after = p.expand_decay_modes(m)
            except Exception as e:
                inside = after = f"{type(e).__name__}: {e}"
            want_in = spec_expand(tabs, p.dict_aliases(), m, fmt=fmt)
            res.count("format_context_histories")
            hcase = dict(case, format=list(fmt))
            if inside != want_in:
                res.violation("inside a descriptor-format context the descriptors do not spell the choices with its patterns", hcase,
                              impl=inside[:4], model=want_in[:4], clause="each choice once")
            if after != want:
                res.violation("after leaving a descriptor-format context the descriptors are not those of the format in force", hcase,
                              impl=after[:4], model=want[:4], clause="each choice once")
            if wire is not None and isinstance(inside, list):
                def onf(ans, hcase=hcase, inside=inside):
                    if ans is not None and (ans[0] != "ok" or list(ans[1]) != inside):
                        res.violation("expansion under user patterns differs from the model", hcase, impl=inside[:6],
                                      model=ans[1][:6] if ans[0] == "ok" else ans, clause="model tie: expand")

                batch.add(["expand_modes_fmt", fmt[0], fmt[1], [True], wire, m], onf)
        hist[0] += 1
        if wire is not None:
            def on(ans, case=case, impl=impl):
                if ans is None:
                    return
                if ans[0] != "ok" or list(ans[1]) != impl:
                    res.violation("expansion differs from the model", case, impl=impl[:8], model=ans[1][:8] if ans[0] == "ok" else ans, clause="model tie: expand")

            batch.add(["expand_modes", [True], wire, m], on)

    for fname, c in load_corpus("C10"):
        p = DecFileParser.from_string(c["text"])
        p.parse()
        one(p, conv_tree(raw_parse(c["text"])), c["text"], c["mother"], "corpus:" + fname)

    for i in range(n_docs):
        doc, info = gen.gen_tables(rng, aliases=True, max_lines=rng.choice([2, 3, 4]), max_ds=rng.choice([2, 3, 4]))
        if i % 4 == 3:
            # a decay line written twice in its block, token for token (two lines of the table: two choices)
            blocks_ = [st for st in doc if st[0] == "decay" and st[2]]
            for b_ in rng.sample(blocks_, min(len(blocks_), rng.choice([1, 1, 2]))):
                src = rng.choice(b_[2])
                b_[2].insert(rng.randint(0, len(b_[2])), [src[0], list(src[1]), src[2], src[3]])
        text = render_doc(doc)
        try:
            p = DecFileParser.from_string(text)
            p.parse()
            wire = conv_tree(raw_parse(text))
        except Exception:
            res.skipped += 1
            continue
        for m in p.list_decay_mother_names():
            one(p, wire, text, m, "generated")
        if i % 5 == 2:
            # comments holding characters that some line-splitting routines cut at, followed by what would be a decay line: a
            # comment ends at the line feed only, the choices are those of the plain text (string and file input)
            odd = ["\x0c", "\x0b", "\x1c", "\x1d", "\x1e", "\x85", "\u2028", "\u2029"]
            out_, inside = [], False
            for ln in text.split("\n"):
                out_.append(ln)
                if ln.startswith("Decay "):
                    inside = True
                elif ln.startswith("Enddecay"):
                    inside = False
                if inside and rng.random() < 0.5:
                    out_.append("  # the previous tune had instead:" + rng.choice(odd) + "0.3000 zz_q1 zz_q2 PHSP;")
            t_odd = "\n".join(out_)
            try:
                if i % 2:
                    p_odd = DecFileParser.from_string(t_odd)
                else:
                    import os
                    import tempfile

                    with tempfile.TemporaryDirectory(prefix="verif_c10_") as td_:
                        with open(os.path.join(td_, "odd.dec"), "w", encoding="utf-8", newline="") as f_:
                            f_.write(t_odd)
                        p_odd = DecFileParser(os.path.join(td_, "odd.dec"))
                p_odd.parse()
            except Exception as e:
                p_odd = None
                res.violation(f"a text with unusual characters inside comments is refused: {type(e).__name__}", {"kind": "expand", "label": "odd-comment-characters", "text": t_odd}, clause="expansion")
            if p_odd is not None:
                for m in p.list_decay_mother_names():
                    one(p_odd, wire, t_odd, m, "odd-comment-characters")
                res.count("odd_comment_texts")
        if i % 3 == 0:
            # a table set differing in a few values (a dropped or doubled line, exchanged daughters), then the previous one again
            d2 = gen.sibling_doc(rng, doc, structure=False)
            for dd, lab in ((d2, "generated:sibling"), (doc, "generated:again")):
                t2 = render_doc(dd)
                try:
                    p2 = DecFileParser.from_string(t2)
                    p2.parse()
                    w2 = conv_tree(raw_parse(t2))
                except Exception:
                    res.skipped += 1
                    continue
                for m in p2.list_decay_mother_names()[:3]:
                    one(p2, w2, t2, m, lab)
            res.count("siblings")

    # signal / tag style files: several aliases of a particle and of its antiparticle, paired by ChargeConj statements of either
    # direction and any spelling, the conjugate tables made by CDecay: the descriptors of every mother are the choices the file
    # states, each alias shown as the particle it stands for and expanded with the lines of its own table
    for i in range(40 if tier == "quick" else 600):
        doc, ms = gen.gen_sigtag(rng)
        text = render_doc(doc)
        try:
            p = DecFileParser.from_string(text)
            p.parse()
            wire = conv_tree(raw_parse(text))
        except Exception:
            res.skipped += 1
            continue
        have = set(p.list_decay_mother_names())
        for m in ms:
            if m in have:
                one(p, wire, text, m, "signal-tag")
        res.count("signal_tag_documents")

    from . import decsmall

    def acyclic(p, m, path=()):
        if m in path:
            return False
        try:
            modes = p.list_decay_modes(m)
        except Exception:
            return True
        return all(acyclic(p, d, path + (m,)) for fs in modes for d in fs)

    for doc in decsmall.docs(3, ((seed + 8) % 16, 16) if tier == "quick" else (0, 1)):
        text = render_doc(doc)
        try:
            p = DecFileParser.from_string(text)
            p.parse()
        except Exception:
            res.skipped += 1
            continue
        for m in dict.fromkeys(p.list_decay_mother_names()):
            if acyclic(p, m):
                one(p, doc, text, m, "small-scope")
        res.count("small_scope_documents")
    import glob

    files = sorted(glob.glob(REPO + "/tests/data/*.dec"))
    if tier == "thorough":
        files += [REPO + "/src/decaylanguage/data/DECAY_LHCB.DEC"]
    for f in files:
        try:
            p = DecFileParser(f)
            p.parse()
        except Exception:
            res.skipped += 1
            continue
        mothers = p.list_decay_mother_names()
        sel = rng.sample(mothers, min(len(mothers), 6 if tier == "quick" else 80))
        for m in sel:
            one(p, None, f, m, "shipped")
    batch.run()
    return res.done()
